//! Type-level witnesses (DESIGN 2.4). Nothing here is executed: `compile_fail` tests are compile-only
//! and every twin is `no_run`. A witness that *compiles* means a negative fact the properties rely on
//! has become false; a twin that no longer compiles means the witness's path is wrong (fail closed).
//!
//! Naming: `w_<id>` is the witness, `t_<id>` its compiling twin (differs in the offending line only).

/// StableGraph is not NodeCompactIndexable (its index space has holes). [C02 C06 C07]
/// ```compile_fail,E0277
/// fn needs_compact<G: petgraph::visit::NodeCompactIndexable>(_: G) {}
/// let g = petgraph::stable_graph::StableGraph::<(), ()>::new();
/// needs_compact(&g);
/// ```
pub fn w_stable_not_compact() {}
/// ```no_run
/// fn needs_compact<G: petgraph::visit::NodeCompactIndexable>(_: G) {}
/// let g = petgraph::graph::Graph::<(), ()>::new();
/// needs_compact(&g);
/// ```
pub fn t_stable_not_compact() {}

/// MatrixGraph is not NodeCompactIndexable. [C04 C06 C07]
/// ```compile_fail,E0277
/// fn needs_compact<G: petgraph::visit::NodeCompactIndexable>(_: G) {}
/// let g = petgraph::matrix_graph::MatrixGraph::<(), ()>::new();
/// needs_compact(&g);
/// ```
pub fn w_matrix_not_compact() {}
/// ```no_run
/// fn needs_index<G: petgraph::visit::NodeIndexable>(_: G) {}
/// let g = petgraph::matrix_graph::MatrixGraph::<(), ()>::new();
/// needs_index(&g);
/// ```
pub fn t_matrix_not_compact() {}

/// NodeFiltered has no NodeCount (it shows a subset). [C06]
/// ```compile_fail,E0277
/// fn needs_count<G: petgraph::visit::NodeCount>(_: G) {}
/// let g = petgraph::graph::Graph::<(), ()>::new();
/// let f = petgraph::visit::NodeFiltered::from_fn(&g, |_| true);
/// needs_count(&f);
/// ```
pub fn w_nodefiltered_no_count() {}
/// ```no_run
/// fn needs_count<G: petgraph::visit::NodeCount>(_: G) {}
/// let g = petgraph::graph::Graph::<(), ()>::new();
/// let f = petgraph::visit::EdgeFiltered::from_fn(&g, |_| true);
/// needs_count(&f);
/// ```
pub fn t_nodefiltered_no_count() {}

/// NodeFiltered is not NodeCompactIndexable. [C06 C07]
/// ```compile_fail,E0277
/// fn needs_compact<G: petgraph::visit::NodeCompactIndexable>(_: G) {}
/// let g = petgraph::graph::Graph::<(), ()>::new();
/// let f = petgraph::visit::NodeFiltered::from_fn(&g, |_| true);
/// needs_compact(&f);
/// ```
pub fn w_nodefiltered_not_compact() {}
/// ```no_run
/// fn needs_index<G: petgraph::visit::NodeIndexable>(_: G) {}
/// let g = petgraph::graph::Graph::<(), ()>::new();
/// let f = petgraph::visit::NodeFiltered::from_fn(&g, |_| true);
/// needs_index(&f);
/// ```
pub fn t_nodefiltered_not_compact() {}

/// EdgeFiltered has no EdgeCount. [C06]
/// ```compile_fail,E0277
/// fn needs_count<G: petgraph::visit::EdgeCount>(_: G) {}
/// let g = petgraph::graph::Graph::<(), ()>::new();
/// let f = petgraph::visit::EdgeFiltered::from_fn(&g, |_| true);
/// needs_count(&f);
/// ```
pub fn w_edgefiltered_no_edgecount() {}
/// ```no_run
/// fn needs_count<G: petgraph::visit::EdgeCount>(_: G) {}
/// let g = petgraph::graph::Graph::<(), ()>::new();
/// needs_count(&g);
/// ```
pub fn t_edgefiltered_no_edgecount() {}

/// floyd_warshall needs a compact index space: rejected for StableGraph at compile time. [C07 C11]
/// ```compile_fail,E0277
/// let g = petgraph::stable_graph::StableGraph::<(), i32>::new();
/// let _ = petgraph::algo::floyd_warshall(&g, |e| *e.weight());
/// ```
pub fn w_floyd_warshall_stable() {}
/// ```no_run
/// let g = petgraph::graph::Graph::<(), i32>::new();
/// let _ = petgraph::algo::floyd_warshall(&g, |e| *e.weight());
/// ```
pub fn t_floyd_warshall_stable() {}

/// connected_components needs NodeCompactIndexable: rejected for StableGraph. [C07 C09]
/// ```compile_fail,E0277
/// let g = petgraph::stable_graph::StableGraph::<(), ()>::new();
/// let _ = petgraph::algo::connected_components(&g);
/// ```
pub fn w_connected_components_stable() {}
/// ```no_run
/// let g = petgraph::graph::Graph::<(), ()>::new();
/// let _ = petgraph::algo::connected_components(&g);
/// ```
pub fn t_connected_components_stable() {}

/// is_isomorphic needs NodeCompactIndexable: rejected for StableGraph. [C07]
/// ```compile_fail,E0277
/// let g = petgraph::stable_graph::StableGraph::<(), ()>::new();
/// let _ = petgraph::algo::is_isomorphic(&g, &g);
/// ```
pub fn w_isomorphic_stable() {}
/// ```no_run
/// let g = petgraph::graph::Graph::<(), ()>::new();
/// let _ = petgraph::algo::is_isomorphic(&g, &g);
/// ```
pub fn t_isomorphic_stable() {}

/// Frozen hands out no `&mut Graph`: structure-mutating methods are unreachable. [C01 C06]
/// ```compile_fail,E0596
/// let mut g = petgraph::graph::Graph::<u32, ()>::new();
/// let mut fr = petgraph::graph::Frozen::new(&mut g);
/// fr.add_node(1);
/// ```
pub fn w_frozen_no_add_node() {}
/// ```no_run
/// let mut g = petgraph::graph::Graph::<u32, ()>::new();
/// let a = g.add_node(0);
/// let mut fr = petgraph::graph::Frozen::new(&mut g);
/// fr[a] = 1;
/// ```
pub fn t_frozen_no_add_node() {}

/// Acyclic has Deref but no DerefMut: the inner graph cannot be mutated behind its back. [C14]
/// ```compile_fail,E0596
/// let mut a = petgraph::acyclic::Acyclic::<petgraph::graph::DiGraph<(), ()>>::new();
/// a.clear();
/// ```
pub fn w_acyclic_no_derefmut() {}
/// ```no_run
/// let a = petgraph::acyclic::Acyclic::<petgraph::graph::DiGraph<(), ()>>::new();
/// let _ = a.node_count();
/// ```
pub fn t_acyclic_no_derefmut() {}

/// Acyclic's fields are private. [C14]
/// ```compile_fail,E0616
/// let a = petgraph::acyclic::Acyclic::<petgraph::graph::DiGraph<(), ()>>::new();
/// let _ = &a.graph;
/// ```
pub fn w_acyclic_fields_private() {}
/// ```no_run
/// let a = petgraph::acyclic::Acyclic::<petgraph::graph::DiGraph<(), ()>>::new();
/// let _ = a.inner();
/// ```
pub fn t_acyclic_fields_private() {}

/// Acyclic::inner_mut is not public. [C14]
/// ```compile_fail,E0624
/// let mut a = petgraph::acyclic::Acyclic::<petgraph::graph::DiGraph<(), ()>>::new();
/// let _ = a.inner_mut();
/// ```
pub fn w_acyclic_inner_mut_private() {}
/// ```no_run
/// let a = petgraph::acyclic::Acyclic::<petgraph::graph::DiGraph<(), ()>>::new();
/// let _ = a.into_inner();
/// ```
pub fn t_acyclic_inner_mut_private() {}

/// Graph's node/edge arrays are private (links can only change through the API). [C01]
/// ```compile_fail,E0616
/// let g = petgraph::graph::Graph::<(), ()>::new();
/// let _ = &g.nodes;
/// ```
pub fn w_graph_nodes_private() {}
/// ```no_run
/// let g = petgraph::graph::Graph::<(), ()>::new();
/// let _ = g.raw_nodes();
/// ```
pub fn t_graph_nodes_private() {}

/// StableGraph's counters are private. [C02]
/// ```compile_fail,E0616
/// let g = petgraph::stable_graph::StableGraph::<(), ()>::new();
/// let _ = g.node_count + 1;
/// ```
pub fn w_stable_counts_private() {}
/// ```no_run
/// let g = petgraph::stable_graph::StableGraph::<(), ()>::new();
/// let _ = g.node_count() + 1;
/// ```
pub fn t_stable_counts_private() {}

/// UnionFind::find takes &self (cannot compress); parent/rank are private. [C19]
/// ```compile_fail,E0616
/// let u = petgraph::unionfind::UnionFind::<u32>::new(4);
/// let _ = &u.parent;
/// ```
pub fn w_unionfind_private() {}
/// ```no_run
/// let u = petgraph::unionfind::UnionFind::<u32>::new(4);
/// let r: &petgraph::unionfind::UnionFind<u32> = &u;
/// let _ = r.find(1);
/// let _ = r.equiv(1, 2);
/// ```
pub fn t_unionfind_private() {}

/// find_mut needs &mut (a shared reference cannot compress paths). [C19]
/// ```compile_fail,E0596
/// let u = petgraph::unionfind::UnionFind::<u32>::new(4);
/// let r: &petgraph::unionfind::UnionFind<u32> = &u;
/// let _ = r.find_mut(1);
/// ```
pub fn w_unionfind_find_mut_needs_mut() {}
/// ```no_run
/// let mut u = petgraph::unionfind::UnionFind::<u32>::new(4);
/// let _ = u.find_mut(1);
/// ```
pub fn t_unionfind_find_mut_needs_mut() {}

/// GraphMap's maps are private (keys only through edge_key). [C03]
/// ```compile_fail,E0616
/// let g = petgraph::graphmap::UnGraphMap::<u32, ()>::new();
/// let _ = &g.edges;
/// ```
pub fn w_graphmap_private() {}
/// ```no_run
/// let g = petgraph::graphmap::UnGraphMap::<u32, ()>::new();
/// let _ = g.all_edges();
/// ```
pub fn t_graphmap_private() {}

/// MatrixGraph's cell array and counter are private. [C04]
/// ```compile_fail,E0616
/// let g = petgraph::matrix_graph::MatrixGraph::<(), ()>::new();
/// let _ = g.nb_edges;
/// ```
pub fn w_matrix_private() {}
/// ```no_run
/// let g = petgraph::matrix_graph::MatrixGraph::<(), ()>::new();
/// let _ = g.edge_count();
/// ```
pub fn t_matrix_private() {}

/// Csr's lock-step vectors are private. [C05]
/// ```compile_fail,E0616
/// let g = petgraph::csr::Csr::<(), ()>::new();
/// let _ = &g.column;
/// ```
pub fn w_csr_private() {}
/// ```no_run
/// let g = petgraph::csr::Csr::<(), ()>::new();
/// let _ = g.edge_count();
/// ```
pub fn t_csr_private() {}
