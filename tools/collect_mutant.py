#!/usr/bin/env python3
"""collect_mutant.py <name> <worktree> <property>: store the worktree's src diff and demo under /verif/seeded/<name>/"""
import os, subprocess, sys, shutil, json
name, wt, pid = sys.argv[1:4]
d = "/verif/seeded/%s" % name
os.makedirs(d, exist_ok=True)
diff = subprocess.check_output(["git", "-C", wt, "diff", "--", "src", "serialization-tests/src"], text=True)
open(os.path.join(d, "patch.diff"), "w").write(diff)
demos = subprocess.check_output(["git", "-C", wt, "ls-files", "--others", "--exclude-standard"], text=True).split()
kept = []
for f in demos:
    if f.endswith(".rs") and "zz_demo" in f:
        shutil.copy(os.path.join(wt, f), os.path.join(d, os.path.basename(f)))
        kept.append(f)
print(name, "diff lines", len(diff.splitlines()), "demos", kept)
