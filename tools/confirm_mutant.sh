#!/bin/bash
# confirm_mutant.sh <name> <worktree>: re-verify a seeded change independently:
#   with the change: builds (default + all features), the existing suite passes, the demo FAILS; without it: the demo PASSES
name=$1; wt=$2; out=/verif/seeded/$name/confirm.log
export CARGO_NET_OFFLINE=true
cd $wt || exit 2
demo=$(git ls-files --others --exclude-standard | grep zz_demo | head -1)
demoname=$(basename $demo .rs)
pkg=""; case $demo in serialization-tests/*) pkg="-p petgraph-serialization-tests";; esac
{
echo "== $name in $wt; demo=$demo"
git diff --stat -- src
echo "-- build"; cargo build --offline -q 2>&1 | grep -E "^error" | head -3; cargo build --offline --all-features -q 2>&1 | grep -E "^error" | head -3
echo "-- existing suite WITH the change (demo moved aside)"
mv $demo /tmp/$name.demo.rs
cargo test --offline --workspace --no-fail-fast 2>&1 | grep -E "^test result|FAILED|failed" | sort | uniq -c | sort -rn | head -8
mv /tmp/$name.demo.rs $demo
echo "-- demo WITH the change (expect failures)"
cargo test --offline $pkg --test $demoname 2>&1 | grep -E "^test result"
echo "-- demo WITHOUT the change (expect ok)"
git diff -- src > /tmp/$name.patch; git apply -R /tmp/$name.patch
cargo test --offline $pkg --test $demoname 2>&1 | grep -E "^test result"
git apply /tmp/$name.patch; rm /tmp/$name.patch
git status --short
} > $out 2>&1
echo done >> $out
