#!/usr/bin/env python3
"""try_patch.py <patch.diff> [Cxx ...]: apply a seeded change to /repo, run the quick checks, undo it straight afterwards.
Prints which properties raised a VIOLATION (and with which rules)."""
import os, re, subprocess, sys
patch = os.path.abspath(sys.argv[1])
pids = sys.argv[2:] or ["all"]
st = subprocess.check_output(["git", "-C", "/repo", "status", "--porcelain"], text=True)
if st.strip():
    print("refusing: /repo is not clean:\n" + st); sys.exit(2)
subprocess.check_call(["git", "-C", "/repo", "apply", patch])
try:
    r = subprocess.run(["/verif/check"] + pids[:1] if pids == ["all"] else ["/verif/check", "all"], stdout=subprocess.PIPE, stderr=subprocess.STDOUT, text=True, cwd="/verif")
    out = r.stdout
finally:
    subprocess.check_call(["git", "-C", "/repo", "checkout", "--", "."])
hits = {}
cur = None
for ln in out.splitlines():
    m = re.match(r"VIOLATION property=(\S+)", ln)
    if m:
        cur = m.group(1); hits.setdefault(cur, set())
    m2 = re.match(r"  (\S+) (\S+) \[([^\]]*)\] (.*)", ln)
    if m2 and cur:
        hits[cur].add("%s @ %s [%s]" % (m2.group(1), m2.group(2), m2.group(3)[-60:]))
if "fact extraction failed" in out or "Traceback" in out:
    print("CHECKER ERROR:\n" + out[-1500:])
print(os.path.basename(os.path.dirname(patch)), "->", {k: sorted(v) for k, v in sorted(hits.items())} or "NOT DETECTED")
