#!/bin/bash
# dbgwt.sh <patch>: (re)create /tmp/dbg/repo = /repo HEAD + patch, for inspecting a false alarm with PGSA_REPO=/tmp/dbg/repo
git -C /repo worktree remove --force /tmp/dbg/repo 2>/dev/null; rm -rf /tmp/dbg; mkdir -p /tmp/dbg
git -C /repo worktree add -q --detach /tmp/dbg/repo HEAD && git -C /tmp/dbg/repo apply "$1" && echo ready
