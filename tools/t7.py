import sys
from pgsa import extract, core, rules7
p,_,_ = extract.extract('all')
F = core.Facts(p)
v = "-v" in sys.argv
names = [a for a in sys.argv[1:] if a != "-v"] or ["who_consults_max","matrix_row_move","csr_endpoint_bounds","tarjan_reset","move_to_clears","bipartite_unfiltered","kruskal_all_edges","who_uses_dummy","fixpoint_flag_monotone","graph_rejects_holes","graph6_order_width","try_equiv_validates","enumerate_is_index","who_touches_scratch","graphmap_remove_node_links"]
for n in names:
    r = getattr(rules7,n)(F)
    print(n, "instances", len(r.instances), "violations", len(r.violations), "floor", r.floor)
    for x in r.violations: print("   V", x.key, x.line, x.msg[:200])
    if v:
        for i in r.instances: print("   ok", str(i)[:230])
