#!/usr/bin/env python3
"""gen_baseline.py: (re)generate pgsa/known_fns.txt and pgsa/baseline.json from the CURRENT /repo tree (run after a `fix:` commit to /repo).
baseline.json records, for every function of the reference tree, (file, argc, visibility, impl self head, kind) and, for every ADT, its field names
per variant.  They are used for two behaviour-preserving normalisations only: inlining of NEW helpers and aliasing of RENAMED private functions /
fields; no rule compares the tree with the baseline."""
import json, os, sys
sys.path.insert(0, os.path.dirname(os.path.dirname(os.path.abspath(__file__))))
from pgsa import extract, core
fns, adts, lcl = {}, {}, {}
for cfg in ("all", "serde", "nostd"):
    p, _, _ = extract.extract(cfg)
    d = json.load(open(p))
    for b in d["bodies"]:
        if b["kind"] in ("Fn", "AssocFn"):
            fns.setdefault(core.norm_path(b["path"]), {"file": b["file"], "argc": b["argc"], "vis": b.get("vis", ""), "selfhead": b.get("impl_selfhead", ""),
                                                       "trait": b.get("impl_trait", ""), "kind": b["kind"]})
        if b["kind"] in ("Fn", "AssocFn", "Closure"):
            lcl.setdefault(core.norm_path(b["path"]), [[l["name"], l["head"]] for l in b["locals"] if l["name"]])
    for a in d["adts"]:
        adts.setdefault(a["path"], [[f["name"] for f in v["fields"]] for v in a["variants"]])
here = os.path.join(os.path.dirname(os.path.dirname(os.path.abspath(__file__))), "pgsa")
open(os.path.join(here, "known_fns.txt"), "w", encoding="utf-8").write(
    "# functions of the reference tree (normalised paths): never inlined; a function NOT listed here is a new helper and is inlined into its callers\n" + "\n".join(sorted(fns)) + "\n")
json.dump({"fns": fns, "adts": adts, "locals": lcl}, open(os.path.join(here, "baseline.json"), "w", encoding="utf-8"), indent=0, sort_keys=True)
print(len(fns), "functions,", len(adts), "adts")
