#!/usr/bin/env python3
"""print the prompt for a mutation sub-agent: property text + its scratch worktree; nothing from /verif"""
import json, sys
pid, wt = sys.argv[1], sys.argv[2]
extra = sys.argv[3] if len(sys.argv) > 3 else ""
for l in open('/verif/properties.jsonl'):
    p = json.loads(l)
    if p['id'] == pid:
        break
files = ", ".join(p['anchors'].get('files', []))
print(f"""You are helping to test a verification setup for the Rust graph library petgraph. You work ONLY inside the git worktree at {wt} (a checkout of petgraph at a pinned commit). Do not read, list or touch /verif or /repo - nothing there is relevant to you, and looking at it would spoil the experiment. The sandbox has no network: always pass --offline to cargo (e.g. `CARGO_NET_OFFLINE=true cargo test --offline ...`).

PROPERTY {p['id']}: {p['title']}
{p['statement']}
Quantified: {p['quantifier']['text']}
Relevant source files: {files}

YOUR TASK: make ONE small, realistic change to the library source under {wt}/src (the kind of bug a developer could introduce in a refactor, an optimisation or a 'simplification' - a few lines at most) that BREAKS this property, such that:
 (a) the crate still compiles: `cargo build --offline` and `cargo build --offline --all-features`;
 (b) the existing test-suite still passes with your change: run `cargo test --offline --workspace --no-fail-fast` in {wt} (it takes a few minutes; all tests must pass - if one fails, pick a different change);
 (c) the breakage needs something SPECIFIC to manifest - a multi-step sequence of operations, an unusual input, a graph type with vacant indices, an index type at its capacity, two cooperating sites that each look fine alone - not something ordinary use would expose at once.
{extra}
Then write a demonstration: a test file {wt}/tests/zz_demo_{pid.lower()}.rs (for serde-related behaviour put it in {wt}/serialization-tests/tests/ instead) containing one or more #[test] functions that FAIL with your change and PASS without it. Verify both directions yourself. IMPORTANT: do NOT use `git stash` (the stash is shared with other worktrees of this repository and other people are working in them); instead save your change with `git diff -- src > /tmp/<your-id>.patch`, revert it with `git apply -R`, run the demo, and re-apply it with `git apply`.

Leave your change as UNCOMMITTED modifications in the worktree (do not commit), together with the demo test file. Do not modify existing tests. When done, reply with: (1) the diff of your src change, (2) what is needed for the breakage to manifest, (3) the exact commands you ran and their outcomes (build, full test-suite with the change, demo with and without the change).""")
