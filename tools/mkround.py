#!/usr/bin/env python3
"""mkround.py <suffix> <mech_idx>: create one scratch worktree per claimed property under /tmp/mut/<pid><suffix> and a prompt file
/tmp/mut/prompt_<pid><suffix>.txt for an independent sub-agent (property text + worktree only; plus a coordination note listing the
changes other people already made for this property, so that the new change is a different one)."""
import glob, json, os, subprocess, sys
suffix, mech_idx = sys.argv[1], int(sys.argv[2])
os.makedirs("/tmp/mut", exist_ok=True)
done = {}
for d in sorted(glob.glob("/verif/seeded/*/meta.json")):
    m = json.load(open(d))
    done.setdefault(m["breaks_property"], []).append(m["change"])
for l in open('/verif/properties.jsonl'):
    p = json.loads(l)
    pid = p['id']
    if pid == 'C13':
        continue
    mechs = p['anchors'].get('mechanism', [])
    m = mechs[mech_idx % len(mechs)] if mechs else None
    extra = ""
    if m:
        extra = ("Several people are doing this task independently for the same property; to spread out, focus YOUR change on this part of the implementation "
                 "(or code it directly cooperates with): %s (%s). Consider several candidate spots there and prefer one that is not the most obvious. " % (m['name'], m['where']))
    if done.get(pid) and os.environ.get("MKROUND_LIST_DONE"):
        extra += ("The following changes have ALREADY been made by others for this property - do something different (a different function or a different kind of mistake): "
                  + "; ".join("(%d) %s" % (i + 1, c) for i, c in enumerate(done[pid])) + ".")
    wt = "/tmp/mut/%s%s" % (pid, suffix)
    subprocess.check_call(["git", "-C", "/repo", "worktree", "add", "-q", "--detach", wt, "HEAD"])
    out = subprocess.check_output(["python3", "/verif/tools/mut_prompt.py", pid, wt, extra], text=True)
    open("/tmp/mut/prompt_%s%s.txt" % (pid, suffix), "w").write(out)
    print(pid, (m or {}).get('name', '')[:80], "| already:", len(done.get(pid, [])))
