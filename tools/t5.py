import sys
from pgsa import extract, core, rules5
p,_,_ = extract.extract('all')
F = core.Facts(p)
names = sys.argv[1:] or ["rank_increment","simple_paths_min","dominators_root","close_only_popped","visitor_then_mark","none_after_some","dir_param_index","filter_flag","graphmap_incoming_mirror","nodes_before_edges","float_overflow_table","search_contract","matrix_edges_table"]
for n in names:
    r = getattr(rules5,n)(F)
    r.check_floor() if hasattr(r,"check_floor") else None
    print(n, "instances", len(r.instances), "violations", len(r.violations), "floor", r.floor)
    for v in r.violations: print("   V", v.key, v.line, v.msg[:150])
    if "-v" in sys.argv:
        for i in r.instances: print("   ok", i)
