import sys
from pgsa import extract, core, rules8
p,_,_ = extract.extract('all')
F = core.Facts(p)
v = "-v" in sys.argv
names = [a for a in sys.argv[1:] if a != "-v"] or ["index_twice_kinds","matrix_checked_position","tarjan_component_count","matching_is_empty","fixpoint_store_flagged","page_rank_whole_rows","index_arith","dsatur_update_then_queue","join_flag_names_edge","reader_never_panics","who_updates_edges","csr_count_reset","csr_edge_id_steps","kosaraju_emits_walker_output","ordermap_both_directions","residual_arithmetic_is_directional","index_vs_count","position_vs_index","csr_sorted_size","adjacency_matrix_only_sets","tarjan_initial_state","dijkstra_exits","acyclic_remove_presence","matching_never_unvisits","dot_connector_source","dsatur_key_shape"]
for n in names:
    r = getattr(rules8,n)(F)
    print(n, "instances", len(r.instances), "violations", len(r.violations), "floor", r.floor)
    for x in r.violations: print("   V", x.key, x.line, x.msg[:200])
    if v:
        for i in r.instances: print("   ok", str(i)[:230])
