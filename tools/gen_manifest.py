#!/usr/bin/env python3
"""Regenerate MANIFEST.json from pgsa/props.py (single source of truth for what is claimed)."""
import json
import os
import sys

VERIF = os.path.dirname(os.path.dirname(os.path.abspath(__file__)))
sys.path.insert(0, VERIF)
from pgsa import props  # noqa: E402

ALL = ["C%02d" % i for i in range(1, 21)]
checks = []
for pid in sorted(props.PROPS):
    sp = props.PROPS[pid]
    checks.append({
        "property_id": pid,
        "quick_cmd": "./check %s --tier quick" % pid,
        "thorough_cmd": "./check %s --tier thorough" % pid,
        "evidence_file": "/verif/evidence/%s.json" % pid,
        "replay_cmd_template": "./check explain {path}",
        "engine": "pgsa",
        "level_claimed": {
            "category": "other",
            "text": "Static analysis (custom MIR-level rules over the type-checked program). Decides structural clauses that are "
                    "necessary conditions of the property, for all inputs/histories, on every path of the current source: "
                    + sp["decides"] + ". It does NOT decide: " + sp["not_decided"] + ".",
            "design_ref": "DESIGN.md section 4 (%s), engines in section 3" % pid,
        },
        "level_note": "Trusted: rustc's type checker and MIR construction (nightly, mir-opt-level=0), the rule tables in /verif/pgsa "
                      "(effect tables for std/indexmap/fixedbitset, idiom exceptions each with a reason), and that the named clause is "
                      "a necessary condition of the behaviour. Quick = one feature configuration (--all-features); thorough = 3 feature "
                      "sets x debug_assertions on/off + compile-fail witnesses.",
        "technique": sp.get("technique", "static analysis: custom dataflow/dominator rules over rustc MIR facts (rustc_private driver)"),
    })
na = []
for pid in ALL:
    if pid not in props.PROPS:
        na.append({"property_id": pid, "reason": props.NOT_APPLICABLE.get(pid, "no structural clause decided yet at this commit")})
man = {
    "version": 1,
    "setup_cmd": "cd /verif/driver && CARGO_NET_OFFLINE=true cargo build --release --offline",
    "hooks": {
        "guard": "petgraph_verif (unused: the static checks need no instrumentation of /repo)",
        "enable": "none - checks read /repo's source through a rustc_private driver injected with RUSTC_WORKSPACE_WRAPPER; /repo is built unmodified",
        "baseline_off_cmd": "cd /repo && cargo test --workspace --no-fail-fast --offline",
        "source_commits": [],
        "add_only": True,
    },
    "engines": [
        {"name": "pgsa-driver", "path": "/verif/driver", "serves_properties": sorted(props.PROPS), "kind_free_text": "rustc_private fact exporter (MIR, impl table, ADTs, traits, consts) -> JSON"},
        {"name": "pgsa", "path": "/verif/pgsa", "serves_properties": sorted(props.PROPS), "kind_free_text": "python rule engines over the facts: CFG, dominators, taint, typestate-like rules"},
    ],
    "checks": checks,
    "not_applicable": na,
    "notes": "Technique family: static analysis only. Every claimed check decides named structural clauses (see level_claimed.text) "
             "and says what it does not decide. Known findings: /verif/known_findings.txt. Fixes to /repo are 'fix:' commits.",
}
with open(os.path.join(VERIF, "MANIFEST.json"), "w") as fh:
    json.dump(man, fh, indent=1)
print("claimed:", sorted(props.PROPS), "n/a:", [x["property_id"] for x in na])
