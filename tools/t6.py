import sys
from pgsa import extract, core, rules6
p,_,_ = extract.extract('all')
F = core.Facts(p)
v = "-v" in sys.argv
names = [a for a in sys.argv[1:] if a != "-v"] or ["who_grows","index_directed_creation","matrix_cell_bounds","list_search_direction","reversed_one_to_one","condensation_simple","entry_arms","negcheck_unfiltered","scratch_grow_guard","label_reset_whole","ap_no_disc_zero","graph6_ids","closure_index_type","csr_mirror_enumeration","fw_diagonal_first","fw_infinity_guard","spfa_fifo","dsatur_count","undirected_adaptor_symm","negcycle_last_relaxation"]
for n in names:
    r = getattr(rules6,n)(F)
    print(n, "instances", len(r.instances), "violations", len(r.violations), "floor", r.floor)
    for x in r.violations: print("   V", x.key, x.line, x.msg[:200])
    if v:
        for i in r.instances: print("   ok", str(i)[:230])
