#!/usr/bin/env python3
"""print the prompt for a refactoring sub-agent: property text + its scratch worktree; nothing from /verif"""
import json, sys
pid, wt = sys.argv[1], sys.argv[2]
EMPH = sys.argv[3] if len(sys.argv) > 3 else ""
for l in open('/verif/properties.jsonl'):
    p = json.loads(l)
    if p['id'] == pid:
        break
files = ", ".join(p['anchors'].get('files', []))
mechs = "; ".join("%s (%s)" % (m['name'], m['where']) for m in p['anchors'].get('mechanism', []))
print(f"""You are helping to test a verification setup for the Rust graph library petgraph. You work ONLY inside the git worktree at {wt} (a checkout of petgraph at a pinned commit). Do not read, list or touch /verif or /repo - nothing there is relevant to you. The sandbox has no network: always pass --offline to cargo (e.g. `CARGO_NET_OFFLINE=true cargo test --offline ...`).

PROPERTY {p['id']}: {p['title']}
{p['statement']}
Relevant source files: {files}
The code that implements it: {mechs}

YOUR TASK: produce SIX independent, realistic, BEHAVIOUR-PRESERVING refactorings of the library code that implements this property - the kind of clean-up a maintainer would merge: e.g. rewrite an `if let`/`match`/early-return in another form, turn a `for` loop into a `while let` or an iterator chain (or back), introduce or remove a temporary variable, rename locals, swap the operands of a comparison (`a < b` <-> `b > a`), reorder two independent statements, extract a small private helper function or inline one, replace a std call by an equivalent one (`is_some()` vs `!= None`, `get(i).copied()` vs indexing under a check that already exists, `push`+`extend`, `iter().position` vs a manual loop), restructure an `if a && b` into nested ifs, etc. """ + EMPH + f""" Each refactoring must change between 3 and 40 lines, must touch code under {wt}/src that actually takes part in the property (spread the six over DIFFERENT functions where possible), and MUST NOT change observable behaviour in any way (same results, same panics, same errors, same iteration order, for every input).
For each refactoring k = 1..6:
 1. start from a clean tree (`git checkout -- src`), make the change;
 2. check `cargo build --offline` and `cargo build --offline --all-features`;
 3. save it with `git diff -- src > {wt}/refactor_k.patch` (k = 1..6) - each patch is relative to the pinned commit and independent of the others.
After all six exist, for each patch apply it alone on a clean tree and run the test-suite `cargo test --offline --workspace --no-fail-fast` (it takes a few minutes; to save time you may apply ALL six together once - if they touch different places - and run the suite once; every test must pass). Do NOT use `git stash` (it is shared with other worktrees); use `git checkout -- src` and `git apply`.
Finish with a clean tree (`git checkout -- src`) and the six patch files in {wt}/. Do not commit. Reply with a short list: for each patch the function(s) touched and the kind of rewrite, plus the commands you ran and their outcomes.""")
