#!/usr/bin/env python3
"""try_neutral.py <patch> [...]: apply each behaviour-preserving patch to a scratch worktree of /repo and run ./check all against it
(PGSA_REPO). Any VIOLATION is a false alarm of the machinery."""
import os, re, shutil, subprocess, sys, tempfile
from concurrent.futures import ThreadPoolExecutor
VERIF = os.path.dirname(os.path.dirname(os.path.abspath(__file__)))
def _wt_add(wt):
    import time
    for k in range(5):
        if subprocess.call(["git", "-C", "/repo", "worktree", "add", "-q", "--detach", wt, "HEAD"], stdout=subprocess.DEVNULL, stderr=subprocess.DEVNULL) == 0:
            return
        time.sleep(1 + k)
    raise RuntimeError("git worktree add failed for " + wt)


def run(patch):
    tdir = tempfile.mkdtemp(prefix="pgsa-neutral-")
    wt = os.path.join(tdir, "repo")
    try:
        _wt_add(wt)
        r = subprocess.run(["git", "-C", wt, "apply", os.path.abspath(patch)], stdout=subprocess.PIPE, stderr=subprocess.STDOUT, text=True)
        if r.returncode != 0:
            return patch, "N/A", "does not apply: " + r.stdout[-150:]
        r = subprocess.run([os.path.join(VERIF, "check"), "all", "--tier", "quick"], env=dict(os.environ, PGSA_REPO=wt), stdout=subprocess.PIPE, stderr=subprocess.STDOUT, text=True, cwd=VERIF)
        out = r.stdout
        if "fact extraction failed" in out:
            return patch, "BROKEN", out[-300:]
        viol = re.findall(r"^  (\S+) (\S+) \[([^\]]*)\] (.*)", out, re.M)
        if viol:
            return patch, "FALSE-ALARM", "; ".join("%s [%s] %s" % (v[0], v[2][-50:], v[3][:90]) for v in viol[:4])
        return patch, "SILENT", ""
    finally:
        subprocess.call(["git", "-C", "/repo", "worktree", "remove", "--force", wt], stdout=subprocess.DEVNULL, stderr=subprocess.DEVNULL)
        shutil.rmtree(tdir, ignore_errors=True)
jobs = 5
args = sys.argv[1:]
if args and args[0] == "-j":
    jobs = int(args[1]); args = args[2:]
with ThreadPoolExecutor(max_workers=jobs) as ex:
    for res in ex.map(run, args):
        print("%-40s %-12s %s" % res, flush=True)
