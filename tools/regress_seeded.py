#!/usr/bin/env python3
"""regress_seeded.py [-j N] [name ...]: replay every stored seeded change against the checks.

For each /verif/seeded/<id>/patch.diff: scratch worktree of /repo (outside /repo and /verif, removed afterwards),
`git apply`, `./check all --tier quick` against the scratch copy (PGSA_REPO), and compare the (property, rule)
pairs that fire with meta.json's "detected_by".  A change recorded as detected that is no longer detected is a
regression of the machinery (exit 1).  Changes recorded as missed are reported but do not fail the run.
Writes seeded/last_regress.json.
"""
import json
import os
import re
import shutil
import subprocess
import sys
import tempfile
from concurrent.futures import ThreadPoolExecutor

VERIF = os.path.dirname(os.path.dirname(os.path.abspath(__file__)))
SEEDED = os.path.join(VERIF, "seeded")


def _wt_add(wt):
    import time
    for k in range(5):
        if subprocess.call(["git", "-C", "/repo", "worktree", "add", "-q", "--detach", wt, "HEAD"], stdout=subprocess.DEVNULL, stderr=subprocess.DEVNULL) == 0:
            return
        time.sleep(1 + k)
    raise RuntimeError("git worktree add failed for " + wt)


def run_one(name):
    d = os.path.join(SEEDED, name)
    meta = json.load(open(os.path.join(d, "meta.json")))
    want = set()
    for x in meta.get("detected_by", []):
        m = re.match(r"(C\d\d): (.*)", x)
        if m:
            for rl in re.split(r",\s*", m.group(2)):
                want.add((m.group(1), rl.strip().split(" ")[0]))
    tdir = tempfile.mkdtemp(prefix="pgsa-regress-")
    wt = os.path.join(tdir, "repo")
    try:
        _wt_add(wt)
        r = subprocess.run(["git", "-C", wt, "apply", os.path.join(d, "patch.diff")], stdout=subprocess.PIPE, stderr=subprocess.STDOUT, text=True)
        if r.returncode != 0:
            return name, "N/A", "patch no longer applies to /repo HEAD: " + r.stdout[-200:], []
        env = dict(os.environ, PGSA_REPO=wt)
        r = subprocess.run([os.path.join(VERIF, "check"), "all", "--tier", "quick"], env=env, stdout=subprocess.PIPE, stderr=subprocess.STDOUT, text=True, cwd=VERIF)
        out = r.stdout
        if "fact extraction failed" in out:
            return name, "BROKEN", "does not compile: " + out[-300:], []
        got = set()
        cur = None
        for ln in out.splitlines():
            m = re.match(r"VIOLATION property=(\S+)", ln)
            if m:
                cur = m.group(1)
            m2 = re.match(r"  (\S+) (\S+) \[", ln)
            if m2 and cur:
                got.add((cur, m2.group(1)))
        gl = sorted("%s:%s" % g for g in got)
        if not want:
            return name, "MISSED" if not got else "NOW-DETECTED", "recorded as missed; fires: %s" % gl, gl
        primary = meta.get("breaks_property")
        hit_primary = any(g[0] == primary for g in got)
        lost = sorted("%s:%s" % w for w in want - got)
        if hit_primary and not lost:
            return name, "PASS", "fires %s" % gl, gl
        if hit_primary:
            return name, "PASS*", "still detected under %s; recorded pairs no longer firing: %s; fires %s" % (primary, lost, gl), gl
        return name, "REGRESSION", "recorded as detected by %s, now fires only %s" % (sorted(want), gl), gl
    except Exception as e:  # noqa
        return name, "ERROR", repr(e), []
    finally:
        subprocess.call(["git", "-C", "/repo", "worktree", "remove", "--force", wt], stdout=subprocess.DEVNULL, stderr=subprocess.DEVNULL)
        shutil.rmtree(tdir, ignore_errors=True)


def main():
    args = sys.argv[1:]
    jobs = 6
    if "-j" in args:
        i = args.index("-j")
        jobs = int(args[i + 1])
        del args[i:i + 2]
    names = sorted(n for n in os.listdir(SEEDED) if os.path.isfile(os.path.join(SEEDED, n, "meta.json")) and os.path.isfile(os.path.join(SEEDED, n, "patch.diff")))
    if args:
        names = [n for n in names if n in args]
    res = []
    with ThreadPoolExecutor(max_workers=jobs) as ex:
        for r in ex.map(run_one, names):
            print("%-8s %-13s %s" % r[:3], flush=True)
            res.append(r)
    bad = [r for r in res if r[1] in ("REGRESSION", "ERROR", "BROKEN")]
    cnt = {}
    for r in res:
        cnt[r[1]] = cnt.get(r[1], 0) + 1
    print("seeded regression: %d changes: %s" % (len(res), cnt))
    json.dump([list(r) for r in res], open(os.path.join(SEEDED, "last_regress.json"), "w"), indent=1)
    return 1 if bad else 0


if __name__ == "__main__":
    sys.exit(main())
