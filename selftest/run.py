#!/usr/bin/env python3
"""Checker self-test: ./selftest/run.py [-j N] [name ...]
For every variant: scratch worktree of /repo (outside /repo and /verif, removed afterwards), apply the
replacement, make sure the variant still type-checks (the fact extraction is a `cargo check`), run the
property's quick check against the scratch copy (PGSA_REPO), compare with the expectation."""
import json
import os
import re
import shutil
import subprocess
import sys
import tempfile
from concurrent.futures import ThreadPoolExecutor

HERE = os.path.dirname(os.path.abspath(__file__))
VERIF = os.path.dirname(HERE)
sys.path.insert(0, HERE)
import variants  # noqa: E402


def run_variant(name, spec, firing):
    file, old, new, pid = spec[0], spec[1], spec[2], spec[3]
    rule = spec[4] if firing else None
    tdir = tempfile.mkdtemp(prefix="pgsa-selftest-")
    wt = os.path.join(tdir, "repo")
    try:
        subprocess.check_call(["git", "-C", "/repo", "worktree", "add", "-q", "--detach", wt, "HEAD"], stdout=subprocess.DEVNULL, stderr=subprocess.DEVNULL)
        p = os.path.join(wt, file)
        s = open(p, encoding="utf-8").read()
        if s.count(old) != 1:
            return name, "N/A", "anchor text matches %d times in %s (code drifted) - variant skipped" % (s.count(old), file)
        open(p, "w", encoding="utf-8").write(s.replace(old, new))
        env = dict(os.environ, PGSA_REPO=wt)
        r = subprocess.run([os.path.join(VERIF, "check"), pid, "--tier", "quick"], env=env, stdout=subprocess.PIPE, stderr=subprocess.STDOUT, text=True, cwd=VERIF)
        out = r.stdout
        if "fact extraction failed" in out:
            return name, "BROKEN-VARIANT", "variant does not compile: " + out[-400:]
        viol = re.findall(r"^  (\S+) (\S+) \[([^\]]*)\]", out, re.M)
        rules = sorted({v[0] for v in viol})
        if firing:
            ok = r.returncode == 1 and any(v[0].startswith(rule) for v in viol)
            return name, "PASS" if ok else "FAIL", "expected %s on %s; got exit %d rules %s" % (rule, pid, r.returncode, rules)
        ok = r.returncode == 0 and not viol
        return name, "PASS" if ok else "FAIL", "expected silence on %s; got exit %d rules %s %s" % (pid, r.returncode, rules, [v[2] for v in viol][:3])
    except Exception as e:  # noqa
        return name, "ERROR", repr(e)
    finally:
        subprocess.call(["git", "-C", "/repo", "worktree", "remove", "--force", wt], stdout=subprocess.DEVNULL, stderr=subprocess.DEVNULL)
        shutil.rmtree(tdir, ignore_errors=True)


def main():
    args = sys.argv[1:]
    jobs = 6
    if "-j" in args:
        i = args.index("-j")
        jobs = int(args[i + 1])
        del args[i:i + 2]
    todo = []
    for n, s in variants.FIRING.items():
        if not args or n in args:
            todo.append((n, s, True))
    for n, s in variants.NEUTRAL.items():
        if not args or n in args:
            todo.append((n, s, False))
    res = []
    with ThreadPoolExecutor(max_workers=jobs) as ex:
        for r in ex.map(lambda t: run_variant(*t), todo):
            print("%-32s %-15s %s" % r, flush=True)
            res.append(r)
    bad = [r for r in res if r[1] not in ("PASS", "N/A")]
    print("selftest: %d variants, %d pass, %d n/a, %d not ok" % (len(res), sum(1 for r in res if r[1] == "PASS"), sum(1 for r in res if r[1] == "N/A"), len(bad)))
    with open(os.path.join(HERE, "last_result.json"), "w") as fh:
        json.dump([list(r) for r in res], fh, indent=1)
    return 1 if bad else 0


if __name__ == "__main__":
    sys.exit(main())
