#![feature(rustc_private)]
extern crate rustc_abi;
extern crate rustc_driver;
extern crate rustc_hir;
extern crate rustc_interface;
extern crate rustc_middle;
extern crate rustc_span;

use rustc_driver::{Callbacks, Compilation};
use rustc_hir::def::DefKind;
use rustc_hir::def_id::DefId;
use rustc_interface::interface::Compiler;
use rustc_middle::mir::{
    self, AggregateKind, BasicBlock, Body, BorrowKind, Const, Operand, Place, ProjectionElem,
    Rvalue, StatementKind, TerminatorKind,
};
use rustc_middle::ty::{self, Ty, TyCtxt, TypingEnv};
use std::fmt::Write as _;

fn esc(s: &str) -> String {
    let mut o = String::with_capacity(s.len() + 2);
    o.push('"');
    for c in s.chars() {
        match c {
            '"' => o.push_str("\\\""),
            '\\' => o.push_str("\\\\"),
            '\n' => o.push_str("\\n"),
            '\t' => o.push_str("\\t"),
            c if (c as u32) < 0x20 => { let _ = write!(o, "\\u{:04x}", c as u32); }
            c => o.push(c),
        }
    }
    o.push('"');
    o
}

struct Ex<'tcx> {
    tcx: TyCtxt<'tcx>,
    cur: std::cell::Cell<Option<&'tcx Body<'tcx>>>,
}

impl<'tcx> Ex<'tcx> {
    fn ty_head(&self, t: Ty<'tcx>) -> String {
        match t.kind() {
            ty::Adt(d, _) => format!("adt:{}", self.tcx.def_path_str(d.did())),
            ty::Ref(_, inner, m) => format!("ref{}:{}", if m.is_mut() { "mut" } else { "" }, self.ty_head(*inner)),
            ty::Param(p) => format!("param:{}", p.name),
            ty::Alias(..) => format!("alias:{t:?}"),
            ty::Closure(d, _) => format!("closure:{}", self.tcx.def_path_str(*d)),
            ty::FnDef(d, _) => format!("fndef:{}", self.tcx.def_path_str(*d)),
            ty::Tuple(_) => "tuple".into(),
            ty::Array(..) => "array".into(),
            ty::Slice(..) => "slice".into(),
            ty::RawPtr(..) => "rawptr".into(),
            _ => format!("{t:?}"),
        }
    }

    fn place(&self, p: &Place<'tcx>) -> String {
        let mut s = format!("{{\"l\":{},\"p\":[", p.local.as_u32());
        let mut first = true;
        let body = self.cur.get();
        for (base, e) in p.iter_projections() {
            if !first { s.push(','); }
            first = false;
            match e {
                ProjectionElem::Deref => s.push_str("\"*\""),
                ProjectionElem::Field(f, _) => {
                    let mut done = false;
                    if let Some(body) = body {
                        let pt = base.ty(&body.local_decls, self.tcx);
                        if let ty::Adt(adt, _) = pt.ty.kind() {
                            if adt.is_struct() || adt.is_enum() {
                                let vi = pt.variant_index.unwrap_or(rustc_abi::FIRST_VARIANT);
                                if vi.as_usize() < adt.variants().len() {
                                    let v = adt.variant(vi);
                                    if f.as_usize() < v.fields.len() {
                                        let _ = write!(s, "{{\"f\":{},\"n\":{},\"a\":{}}}", f.as_u32(), esc(v.fields[f].name.as_str()), esc(&self.tcx.def_path_str(adt.did())));
                                        done = true;
                                    }
                                }
                            }
                        }
                    }
                    if !done { let _ = write!(s, "{{\"f\":{}}}", f.as_u32()); }
                }
                ProjectionElem::Index(l) => { let _ = write!(s, "{{\"ix\":{}}}", l.as_u32()); }
                ProjectionElem::ConstantIndex { offset, .. } => { let _ = write!(s, "{{\"cix\":{}}}", offset); }
                ProjectionElem::Downcast(_, v) => { let _ = write!(s, "{{\"dc\":{}}}", v.as_u32()); }
                _ => s.push_str("\"?\""),
            }
        }
        s.push_str("]}");
        s
    }

    fn konst(&self, c: &Const<'tcx>) -> String {
        let t = c.ty();
        match t.kind() {
            ty::FnDef(d, args) => {
                return format!("{{\"fn\":{},\"args\":{}}}", esc(&self.tcx.def_path_str(*d)), esc(&format!("{args:?}")));
            }
            ty::Closure(d, _) => return format!("{{\"closure\":{}}}", esc(&self.tcx.def_path_str(*d))),
            _ => {}
        }
        let v = match c {
            Const::Val(mir::ConstValue::Scalar(s), _) => match s.try_to_scalar_int() {
                Ok(si) => format!("{}", si.to_bits_unchecked()),
                Err(_) => "ptr".to_string(),
            },
            _ => format!("{c}"),
        };
        format!("{{\"const\":{},\"ty\":{}}}", esc(&v), esc(&format!("{t:?}")))
    }

    fn operand(&self, o: &Operand<'tcx>) -> String {
        match o {
            Operand::Copy(p) => format!("{{\"copy\":{}}}", self.place(p)),
            Operand::Move(p) => format!("{{\"move\":{}}}", self.place(p)),
            Operand::Constant(c) => self.konst(&c.const_),
            #[allow(unreachable_patterns)]
            _ => "{\"op\":\"?\"}".into(),
        }
    }

    fn rvalue(&self, r: &Rvalue<'tcx>) -> String {
        match r {
            Rvalue::Use(o, _) => format!("{{\"k\":\"use\",\"o\":[{}]}}", self.operand(o)),
            Rvalue::Ref(_, bk, p) => {
                let m = matches!(bk, BorrowKind::Mut { .. });
                format!("{{\"k\":\"ref\",\"mut\":{},\"pl\":{}}}", m, self.place(p))
            }
            Rvalue::RawPtr(k, p) => format!("{{\"k\":\"rawptr\",\"mut\":{},\"pl\":{}}}", format!("{k:?}").contains("Mut"), self.place(p)),
            Rvalue::BinaryOp(op, b) => format!("{{\"k\":\"bin\",\"op\":{},\"o\":[{},{}]}}", esc(&format!("{op:?}")), self.operand(&b.0), self.operand(&b.1)),
            Rvalue::UnaryOp(op, o) => format!("{{\"k\":\"un\",\"op\":{},\"o\":[{}]}}", esc(&format!("{op:?}")), self.operand(o)),
            Rvalue::Cast(k, o, t) => format!("{{\"k\":\"cast\",\"ck\":{},\"o\":[{}],\"ty\":{}}}", esc(&format!("{k:?}")), self.operand(o), esc(&format!("{t:?}"))),
            Rvalue::Discriminant(p) => format!("{{\"k\":\"discr\",\"pl\":{}}}", self.place(p)),
            Rvalue::Aggregate(kind, ops) => {
                let (ak, name, var) = match &**kind {
                    AggregateKind::Adt(d, v, _, _, _) => {
                        let adt = self.tcx.adt_def(*d);
                        ("adt", self.tcx.def_path_str(*d), adt.variant(*v).name.to_string())
                    }
                    AggregateKind::Tuple => ("tuple", String::new(), String::new()),
                    AggregateKind::Array(_) => ("array", String::new(), String::new()),
                    AggregateKind::Closure(d, _) => ("closure", self.tcx.def_path_str(*d), String::new()),
                    _ => ("other", String::new(), String::new()),
                };
                let os: Vec<String> = ops.iter().map(|o| self.operand(o)).collect();
                format!("{{\"k\":\"agg\",\"ak\":\"{}\",\"name\":{},\"variant\":{},\"o\":[{}]}}", ak, esc(&name), esc(&var), os.join(","))
            }
            Rvalue::Repeat(o, _) => format!("{{\"k\":\"repeat\",\"o\":[{}]}}", self.operand(o)),
            Rvalue::CopyForDeref(p) => format!("{{\"k\":\"use\",\"o\":[{{\"copy\":{}}}]}}", self.place(p)),
            other => format!("{{\"k\":\"other\",\"dbg\":{}}}", esc(&format!("{other:?}"))),
        }
    }

    fn callee(&self, body_did: DefId, func: &Operand<'tcx>) -> String {
        let tcx = self.tcx;
        if let Operand::Constant(c) = func {
            if let ty::FnDef(d, args) = c.const_.ty().kind() {
                let path = tcx.def_path_str(*d);
                let mut tr = String::new();
                let mut selfty = String::new();
                let mut selfhead = String::new();
                if let Some(t) = tcx.trait_of_assoc(*d) {
                    tr = tcx.def_path_str(t);
                    if args.len() > 0 { if let Some(t0) = args[0].as_type() { selfty = format!("{t0:?}"); selfhead = self.ty_head(t0); } }
                } else if let Some(i) = tcx.impl_of_assoc(*d) {
                    let t0 = tcx.type_of(i).instantiate_identity().skip_norm_wip();
                    selfty = format!("{t0:?}"); selfhead = self.ty_head(t0);
                }
                let mut resolved = String::new();
                let tenv = TypingEnv::post_analysis(tcx, body_did);
                if let Ok(Some(inst)) = ty::Instance::try_resolve(tcx, tenv, *d, args) {
                    let rd = inst.def_id();
                    if rd != *d { resolved = tcx.def_path_str(rd); }
                }
                let krate = tcx.crate_name(d.krate).to_string();
                let unsafe_fn = matches!(tcx.def_kind(*d), DefKind::Fn | DefKind::AssocFn) && tcx.fn_sig(*d).skip_binder().safety().is_unsafe();
                let targs: Vec<String> = args.iter().map(|a| esc(&format!("{a:?}"))).collect();
                return format!("{{\"path\":{},\"crate\":{},\"trait\":{},\"self\":{},\"selfhead\":{},\"resolved\":{},\"unsafe\":{},\"targs\":[{}]}}",
                    esc(&path), esc(&krate), esc(&tr), esc(&selfty), esc(&selfhead), esc(&resolved), unsafe_fn, targs.join(","));
            }
        }
        format!("{{\"indirect\":{}}}", self.operand(func))
    }

    fn line(&self, sp: rustc_span::Span) -> (String, usize, bool) {
        let sm = self.tcx.sess.source_map();
        let exp = sp.from_expansion();
        let sp2 = sp.source_callsite();
        let loc = sm.lookup_char_pos(sp2.lo());
        (format!("{}", loc.file.name.prefer_local_unconditionally()), loc.line, exp)
    }

    fn macro_name(&self, sp: rustc_span::Span) -> String {
        // names of all macros in the expansion backtrace, outermost last
        let mut v = Vec::new();
        for ed in sp.macro_backtrace() {
            if let rustc_span::hygiene::ExpnKind::Macro(_, name) = ed.kind { v.push(name.to_string()); }
            if v.len() >= 6 { break; }
        }
        v.join(">")
    }

    fn body(&self, did: DefId, out: &mut String) {
        let tcx = self.tcx;
        let kind = tcx.def_kind(did);
        let body: &Body<'tcx> = if matches!(kind, DefKind::Fn | DefKind::AssocFn | DefKind::Closure) { tcx.optimized_mir(did) } else { tcx.mir_for_ctfe(did) };
        self.cur.set(Some(body));
        let (file, line, exp) = self.line(body.span);
        let mac = self.macro_name(body.span);
        let is_unsafe = matches!(kind, DefKind::Fn | DefKind::AssocFn) && tcx.fn_sig(did).skip_binder().safety().is_unsafe();
        let kinds = match kind { DefKind::Fn => "Fn", DefKind::AssocFn => "AssocFn", DefKind::Closure => "Closure", DefKind::Const { .. } => "Const", DefKind::AssocConst { .. } => "AssocConst", DefKind::Static { .. } => "Static", _ => "Other" };
        let _ = write!(out, "{{\"path\":{},\"kind\":{},\"file\":{},\"line\":{},\"exp\":{},\"macro\":{},\"unsafe\":{},", esc(&tcx.def_path_str(did)), esc(kinds), esc(&file), line, exp, esc(&mac), is_unsafe);
        // owner for param env: closures use the typeck root
        let root = tcx.typeck_root_def_id(did);
        let _ = write!(out, "\"root\":{},", esc(&tcx.def_path_str(root)));
        let vis = if matches!(kind, DefKind::Fn | DefKind::AssocFn) { format!("{:?}", tcx.visibility(did)) } else { String::new() };
        let _ = write!(out, "\"vis\":{},", esc(&vis));
        // impl info
        if let Some(i) = tcx.impl_of_assoc(root) {
            let st = tcx.type_of(i).instantiate_identity().skip_norm_wip();
            let tr = tcx.impl_opt_trait_ref(i).map(|t| tcx.def_path_str(t.skip_binder().def_id)).unwrap_or_default();
            let _ = write!(out, "\"impl_self\":{},\"impl_selfhead\":{},\"impl_trait\":{},", esc(&format!("{st:?}")), esc(&self.ty_head(st)), esc(&tr));
        }
        // param env
        let mut preds = Vec::new();
        for c in tcx.param_env(root).caller_bounds() {
            if let Some(tp) = c.as_trait_clause() {
                let tp = tp.skip_binder();
                preds.push(format!("[{},{}]", esc(&format!("{:?}", tp.self_ty())), esc(&tcx.def_path_str(tp.def_id()))));
            }
        }
        let _ = write!(out, "\"preds\":[{}],", preds.join(","));
        let _ = write!(out, "\"argc\":{},", body.arg_count);
        // locals
        let mut names: Vec<String> = vec![String::new(); body.local_decls.len()];
        for v in &body.var_debug_info {
            if let mir::VarDebugInfoContents::Place(p) = &v.value {
                if p.projection.is_empty() { names[p.local.as_usize()] = v.name.to_string(); }
            }
        }
        let mut ls = Vec::new();
        for (l, d) in body.local_decls.iter_enumerated() {
            ls.push(format!("{{\"ty\":{},\"head\":{},\"name\":{}}}", esc(&format!("{:?}", d.ty)), esc(&self.ty_head(d.ty)), esc(&names[l.as_usize()])));
        }
        // promoted constants: dump the statements of each promoted body (they are tiny: `_0 = &CONST`)
        let mut proms = Vec::new();
        if matches!(kind, DefKind::Fn | DefKind::AssocFn | DefKind::Closure) {
            for pb in tcx.promoted_mir(did).iter() {
                self.cur.set(Some(pb));
                let mut sts = Vec::new();
                for data in pb.basic_blocks.iter() {
                    for st in &data.statements {
                        if let StatementKind::Assign(bx) = &st.kind {
                            sts.push(format!("{{\"lhs\":{},\"rv\":{}}}", self.place(&bx.0), self.rvalue(&bx.1)));
                        }
                    }
                }
                proms.push(format!("[{}]", sts.join(",")));
            }
            self.cur.set(Some(body));
        }
        let _ = write!(out, "\"promoted\":[{}],", proms.join(","));
        let _ = write!(out, "\"locals\":[{}],\"blocks\":[", ls.join(","));
        let mut firstb = true;
        for (_bb, data) in body.basic_blocks.iter_enumerated() {
            if !firstb { out.push(','); }
            firstb = false;
            let _ = write!(out, "{{\"cleanup\":{},\"st\":[", data.is_cleanup);
            let mut first = true;
            for st in &data.statements {
                if let StatementKind::Assign(b) = &st.kind {
                    if !first { out.push(','); }
                    first = false;
                    let (_, ln, ex) = self.line(st.source_info.span);
                    let mc = if ex { self.macro_name(st.source_info.span) } else { String::new() };
                    let _ = write!(out, "{{\"lhs\":{},\"rv\":{},\"line\":{},\"exp\":{},\"mac\":{}}}", self.place(&b.0), self.rvalue(&b.1), ln, ex, esc(&mc));
                } else if let StatementKind::SetDiscriminant { place, variant_index } = &st.kind {
                    if !first { out.push(','); }
                    first = false;
                    let (_, ln, ex) = self.line(st.source_info.span);
                    let _ = write!(out, "{{\"lhs\":{},\"rv\":{{\"k\":\"setdiscr\",\"v\":{},\"o\":[]}},\"line\":{},\"exp\":{},\"mac\":\"\"}}", self.place(place), variant_index.as_u32(), ln, ex);
                }
            }
            out.push_str("],\"term\":");
            let term = data.terminator();
            let (_, ln, ex) = self.line(term.source_info.span);
            let t = |b: &BasicBlock| b.as_u32();
            match &term.kind {
                TerminatorKind::Goto { target } => { let _ = write!(out, "{{\"k\":\"goto\",\"t\":[{}]", t(target)); }
                TerminatorKind::SwitchInt { discr, targets } => {
                    let vs: Vec<String> = targets.iter().map(|(v, b)| format!("[{},{}]", v, t(&b))).collect();
                    let _ = write!(out, "{{\"k\":\"switch\",\"d\":{},\"cases\":[{}],\"otherwise\":{}", self.operand(discr), vs.join(","), t(&targets.otherwise()));
                }
                TerminatorKind::Return => { out.push_str("{\"k\":\"return\""); }
                TerminatorKind::Unreachable => { out.push_str("{\"k\":\"unreachable\""); }
                TerminatorKind::Drop { place, target, .. } => { let _ = write!(out, "{{\"k\":\"drop\",\"pl\":{},\"t\":[{}]", self.place(place), t(target)); }
                TerminatorKind::Call { func, args, destination, target, .. } => {
                    let a: Vec<String> = args.iter().map(|a| self.operand(&a.node)).collect();
                    let tg = target.map(|b| format!("{}", t(&b))).unwrap_or_default();
                    let _ = write!(out, "{{\"k\":\"call\",\"f\":{},\"args\":[{}],\"dest\":{},\"t\":[{}]", self.callee(root, func), a.join(","), self.place(destination), tg);
                }
                TerminatorKind::Assert { cond, expected, target, msg, .. } => {
                    let mk = format!("{msg:?}");
                    let mk = mk.split('(').next().unwrap_or("").to_string();
                    let _ = write!(out, "{{\"k\":\"assert\",\"c\":{},\"exp\":{},\"msg\":{},\"t\":[{}]", self.operand(cond), expected, esc(&mk), t(target));
                }
                TerminatorKind::UnwindResume => { out.push_str("{\"k\":\"resume\""); }
                other => { let _ = write!(out, "{{\"k\":\"other\",\"dbg\":{}", esc(&format!("{other:?}").chars().take(80).collect::<String>())); }
            }
            let mc = if ex { self.macro_name(term.source_info.span) } else { String::new() };
            let _ = write!(out, ",\"line\":{},\"mexp\":{},\"mac\":{}}}}}", ln, ex, esc(&mc));
        }
        out.push_str("]}");
    }
}

struct Cb;
impl Callbacks for Cb {
    fn after_analysis<'tcx>(&mut self, _c: &Compiler, tcx: TyCtxt<'tcx>) -> Compilation {
        let krate = tcx.crate_name(rustc_span::def_id::LOCAL_CRATE);
        if krate.as_str() != "petgraph" { return Compilation::Continue; }
        let outp = match std::env::var("PGSA_OUT") { Ok(p) => p, Err(_) => return Compilation::Continue };
        let ex = Ex { tcx, cur: std::cell::Cell::new(None) };
        let mut out = String::with_capacity(64 << 20);
        out.push_str("{\"bodies\":[");
        let mut n = 0;
        for ldid in tcx.hir_body_owners() {
            let did = ldid.to_def_id();
            let kind = tcx.def_kind(did);
            if !matches!(kind, DefKind::Fn | DefKind::AssocFn | DefKind::Closure | DefKind::Const { .. } | DefKind::AssocConst { .. } | DefKind::Static { .. }) { continue; }
            if n > 0 { out.push(','); }
            ex.body(did, &mut out);
            n += 1;
        }
        out.push_str("],\"impls\":[");
        // impls
        let mut first = true;
        for id in tcx.hir_free_items() {
            let did = id.owner_id.to_def_id();
            if let DefKind::Impl { of_trait } = tcx.def_kind(did) {
                if !first { out.push(','); }
                first = false;
                let st = tcx.type_of(did).instantiate_identity().skip_norm_wip();
                let tr = if of_trait { tcx.impl_opt_trait_ref(did).map(|t| tcx.def_path_str(t.skip_binder().def_id)).unwrap_or_default() } else { String::new() };
                let (file, line, exp) = ex.line(tcx.def_span(did));
                let items: Vec<String> = tcx.associated_item_def_ids(did).iter().map(|d| esc(&tcx.def_path_str(*d))).collect();
                let mut preds = Vec::new();
                for c in tcx.param_env(did).caller_bounds() {
                    if let Some(tp) = c.as_trait_clause() {
                        let tp = tp.skip_binder();
                        preds.push(format!("[{},{}]", esc(&format!("{:?}", tp.self_ty())), esc(&tcx.def_path_str(tp.def_id()))));
                    }
                }
                let _ = write!(out, "{{\"self\":{},\"selfhead\":{},\"trait\":{},\"file\":{},\"line\":{},\"exp\":{},\"items\":[{}],\"preds\":[{}]}}",
                    esc(&format!("{st:?}")), esc(&ex.ty_head(st)), esc(&tr), esc(&file), line, exp, items.join(","), preds.join(","));
            }
        }
        out.push_str("],\"adts\":[");
        let mut first = true;
        for id in tcx.hir_free_items() {
            let did = id.owner_id.to_def_id();
            if matches!(tcx.def_kind(did), DefKind::Struct | DefKind::Enum) {
                if !first { out.push(','); }
                first = false;
                let adt = tcx.adt_def(did);
                let mut vs = Vec::new();
                for v in adt.variants() {
                    let fs: Vec<String> = v.fields.iter().map(|f| format!("{{\"name\":{},\"ty\":{},\"vis\":{}}}", esc(f.name.as_str()), esc(&format!("{:?}", tcx.type_of(f.did).instantiate_identity().skip_norm_wip())), esc(&format!("{:?}", f.vis)))).collect();
                    vs.push(format!("{{\"name\":{},\"fields\":[{}]}}", esc(v.name.as_str()), fs.join(",")));
                }
                let attrs: Vec<String> = tcx.hir_attrs(tcx.local_def_id_to_hir_id(id.owner_id.def_id)).iter().map(|a| esc(&format!("{a:?}").chars().take(300).collect::<String>())).collect();
                let _ = write!(out, "{{\"path\":{},\"variants\":[{}],\"attrs\":[{}]}}", esc(&tcx.def_path_str(did)), vs.join(","), attrs.join(","));
            }
        }
        out.push_str("],\"traits\":[");
        let mut first = true;
        for id in tcx.hir_free_items() {
            let did = id.owner_id.to_def_id();
            if matches!(tcx.def_kind(did), DefKind::Trait) {
                if !first { out.push(','); }
                first = false;
                let mut ms = Vec::new();
                for d in tcx.associated_item_def_ids(did) {
                    if matches!(tcx.def_kind(*d), DefKind::AssocFn) {
                        let sig = tcx.fn_sig(*d).skip_binder().skip_binder();
                        let ins: Vec<String> = sig.inputs().iter().map(|t| esc(&format!("{t}"))).collect();
                        let has_default = tcx.defaultness(*d).has_value();
                        ms.push(format!("{{\"path\":{},\"name\":{},\"inputs\":[{}],\"output\":{},\"default\":{}}}", esc(&tcx.def_path_str(*d)), esc(tcx.item_name(*d).as_str()), ins.join(","), esc(&format!("{}", sig.output())), has_default));
                    }
                }
                let mut sup = Vec::new();
                for (c, _) in tcx.explicit_super_predicates_of(did).skip_binder() {
                    if let Some(tp) = c.as_trait_clause() { sup.push(esc(&tcx.def_path_str(tp.skip_binder().def_id()))); }
                }
                let _ = write!(out, "{{\"path\":{},\"methods\":[{}],\"supers\":[{}]}}", esc(&tcx.def_path_str(did)), ms.join(","), sup.join(","));
            }
        }
        out.push_str("],\"consts\":[");
        let mut first = true;
        for ldid in tcx.hir_body_owners() {
            let did = ldid.to_def_id();
            if matches!(tcx.def_kind(did), DefKind::Const { .. }) {
                let t = tcx.type_of(did).instantiate_identity().skip_norm_wip();
                if !(t.is_integral() || t.is_bool() || t.is_char()) { continue; }
                if tcx.generics_of(did).count() != 0 { continue; }
                if let Ok(v) = tcx.const_eval_poly(did) {
                    if let Some(si) = v.try_to_scalar_int() {
                        if !first { out.push(','); }
                        first = false;
                        let _ = write!(out, "{{\"path\":{},\"ty\":{},\"value\":\"{}\"}}", esc(&tcx.def_path_str(did)), esc(&format!("{t:?}")), si.to_bits_unchecked());
                    }
                }
            }
        }
        out.push_str("]}");
        std::fs::write(&outp, out).unwrap();
        eprintln!("pgsa: wrote {n} bodies to {outp}");
        Compilation::Continue
    }
}

fn main() {
    let args: Vec<String> = std::env::args().skip(1).collect();
    rustc_driver::run_compiler(&args, &mut Cb);
}
