"""TABLE - finite decision tables extracted from MIR (DESIGN 3.8).

Small total functions whose inputs are only compared / matched are walked over their MIR with an
*abstract oracle* that answers each comparison for one of finitely many input classes (orderings,
character classes, enum variants).  No petgraph code is executed and no concrete weights exist: the
walk follows the CFG of the function under analysis and records the constant it returns and the
calls it makes.
"""
import re

from .core import op_place, op_local, callee_name, last_seg, norm_path, walk_expr
from .report import RuleResult, Violation


class Unknown(Exception):
    pass


class Walk:
    """abstract walk of one MIR body. Values: bool, int, ('enum', idx|None, name|None), ('str', s), ('opaque', tag)"""

    def __init__(self, facts, b, oracle, args):
        self.facts = facts
        self.b = b
        self.oracle = oracle
        self.env = dict(args)
        self.trace = []
        self.steps = 0

    def variant_index(self, adt, name):
        a = self.facts.adts.get(adt)
        if not a:
            return None
        for i, v in enumerate(a["variants"]):
            if v["name"] == name:
                return i
        return None

    def const(self, o):
        c, ty = o["const"], o.get("ty", "")
        m = re.search(r"promoted\[(\d+)\]$", c)
        if m and int(m.group(1)) < len(self.b.d.get("promoted", [])):
            sub = Walk(self.facts, self.b, self.oracle, {})
            for st in self.b.d["promoted"][int(m.group(1))]:
                if not st["lhs"]["p"]:
                    sub.env[st["lhs"]["l"]] = sub.rvalue(st["rv"])
            return sub.env.get(0, ("opaque", c))
        if ty == "bool":
            return c in ("1", "true")
        if re.fullmatch(r"\d+", c):
            return int(c)
        if c.startswith('"'):
            try:
                return ("str", bytes(c[1:-1], "utf-8").decode("unicode_escape"))
            except Exception:
                return ("str", c[1:-1])
        return ("opaque", c)

    def read_place(self, p):
        v = self.env.get(p["l"], ("opaque", "_%d" % p["l"]))
        for x in p["p"]:
            if x == "*":
                if isinstance(v, tuple) and v[0] == "ref":
                    v = v[1]
                continue
            if isinstance(x, dict) and "f" in x:
                if isinstance(v, tuple) and v[0] == "agg":
                    v = v[3][x["f"]] if x["f"] < len(v[3]) else ("opaque", "?")
                elif isinstance(v, tuple) and v[0] == "opaque":
                    v = ("opaque", "%s.%s" % (v[1], x.get("n", x["f"])))
                else:
                    v = ("opaque", "?")
            elif isinstance(x, dict) and "dc" in x:
                continue
            elif isinstance(x, dict) and ("ix" in x or "cix" in x):
                k = x["cix"] if "cix" in x else self.env.get(x["ix"])
                if isinstance(v, tuple) and v[0] == "agg" and isinstance(k, int) and not isinstance(k, bool) and k < len(v[3]):
                    v = v[3][k]
                else:
                    v = ("opaque", "?")
            else:
                v = ("opaque", "?")
        return v

    def operand(self, o):
        if "const" in o:
            return self.const(o)
        if "fn" in o or "closure" in o:
            return ("fn", o.get("fn") or o.get("closure"))
        p = op_place(o)
        if p is None:
            return ("opaque", "?")
        return self.read_place(p)

    def rvalue(self, rv):
        k = rv["k"]
        if k == "use":
            return self.operand(rv["o"][0])
        if k == "cast":
            v = self.operand(rv["o"][0])
            if isinstance(v, tuple) and v[0] == "enum" and v[1] is not None:
                return v[1]
            return v
        if k == "un":
            v = self.operand(rv["o"][0])
            if rv["op"] == "Not" and isinstance(v, bool):
                return not v
            return ("opaque", "un")
        if k == "bin":
            a, c = self.operand(rv["o"][0]), self.operand(rv["o"][1])
            op = rv["op"]
            if isinstance(a, int) and isinstance(c, int) and not isinstance(a, bool) and not isinstance(c, bool):
                if op == "Eq":
                    return a == c
                if op == "Ne":
                    return a != c
                if op == "Lt":
                    return a < c
                if op == "BitAnd":
                    return a & c
                if op == "Sub":
                    return a - c
                if op == "Add":
                    return a + c
            if isinstance(a, bool) and isinstance(c, bool):
                if op == "Eq":
                    return a == c
                if op == "Ne":
                    return a != c
                if op == "BitAnd":
                    return a and c
                if op == "BitOr":
                    return a or c
            return ("opaque", "bin")
        if k in ("ref", "rawptr"):
            return ("ref", self.read_place(rv["pl"]))
        if k == "discr":
            v = self.read_place(rv["pl"])
            if isinstance(v, tuple) and v[0] == "enum" and v[1] is not None:
                return v[1]
            if isinstance(v, tuple) and v[0] == "agg" and v[4] is not None:
                return v[4]
            raise Unknown("discriminant of %r" % (v,))
        if k == "agg":
            if rv["ak"] == "adt":
                idx = self.variant_index(rv["name"], rv["variant"])
                ops = [self.operand(o) for o in rv["o"]]
                if not ops:
                    return ("enum", idx, rv["variant"])
                return ("agg", rv["name"], rv["variant"], ops, idx)
            return ("agg", rv["ak"], "", [self.operand(o) for o in rv["o"]], None)
        return ("opaque", k)

    def run(self, limit=400):
        b = self.b
        blk = 0
        while True:
            self.steps += 1
            if self.steps > limit:
                raise Unknown("step limit")
            bl = b.blocks[blk]
            for st in bl["st"]:
                v = self.rvalue(st["rv"])
                lhs = st["lhs"]
                if not lhs["p"]:
                    self.env[lhs["l"]] = v
                else:
                    from .core import place_str
                    idx = [self.env.get(x["ix"]) for x in lhs["p"] if isinstance(x, dict) and "ix" in x]
                    self.trace.append(("store", ".".join(x.get("n", "?") for x in lhs["p"] if isinstance(x, dict) and "f" in x), tuple(idx)))
            t = bl["term"]
            k = t["k"]
            if k == "return":
                return self.env.get(0, ("opaque", "ret"))
            if k == "goto":
                blk = t["t"][0]
            elif k == "drop":
                blk = t["t"][0]
            elif k == "assert":
                blk = t["t"][0]
            elif k == "switch":
                v = self.operand(t["d"])
                if isinstance(v, bool):
                    v = 1 if v else 0
                if not isinstance(v, int):
                    raise Unknown("switch on %r at line %d" % (v, t["line"]))
                tgt = t["otherwise"]
                for (cv, cb) in t["cases"]:
                    if int(cv) == v:
                        tgt = cb
                blk = tgt
            elif k == "call":
                f = t["f"]
                args = [self.operand(a) for a in t["args"]]
                res = self.oracle(self, f, args, t)
                self.env[t["dest"]["l"]] = res
                if not t["t"] or t["t"] == [""]:
                    return ("diverge",)
                blk = int(t["t"][0])
            else:
                raise Unknown("terminator %s" % k)


class FreeWalk(Walk):
    """abstract walk in which every comparison whose operands are not concrete consumes one free oracle bit"""

    def __init__(self, facts, b, oracle, args, bits):
        Walk.__init__(self, facts, b, oracle, args)
        self.bits = list(bits)
        self.used = 0

    def free(self):
        if self.used >= len(self.bits):
            raise Unknown("more than %d free comparisons" % len(self.bits))
        v = self.bits[self.used]
        self.used += 1
        return v

    def rvalue(self, rv):
        if rv["k"] == "bin" and rv["op"] in ("Gt", "Lt", "Ge", "Le", "Eq", "Ne"):
            a, c = self.operand(rv["o"][0]), self.operand(rv["o"][1])
            if isinstance(a, (bool, int)) and isinstance(c, (bool, int)):
                return Walk.rvalue(self, rv)
            return self.free()
        return Walk.rvalue(self, rv)



def deref(v):
    while isinstance(v, tuple) and v[0] == "ref":
        v = v[1]
    return v


# ---------------------------------------------------------------------------- MinScored / MaxScored
SCEN = ("LT", "EQ", "GT", "NAN_A", "NAN_B", "NAN_AB")


def _scored_oracle(scen):
    def nan(x):
        return (x == "A" and scen in ("NAN_A", "NAN_AB")) or (x == "B" and scen in ("NAN_B", "NAN_AB"))

    def rel(x, y):
        """'lt','eq','gt' or None (unordered)"""
        if nan(x) or nan(y):
            return None
        if x == y:
            return "eq"
        r = {"LT": "lt", "EQ": "eq", "GT": "gt"}.get(scen)
        if r is None:
            return None if (nan("A") or nan("B")) else "eq"
        if (x, y) == ("A", "B"):
            return r
        return {"lt": "gt", "gt": "lt", "eq": "eq"}[r]

    def oracle(w, f, args, t):
        np_ = norm_path(f["path"])
        nm = last_seg(np_)
        if np_.startswith("core::cmp::PartialEq::") or np_.startswith("core::cmp::PartialOrd::"):
            xs = [deref(a) for a in args]
            ids = []
            for x in xs:
                if isinstance(x, tuple) and x[0] == "opaque" and x[1] in ("A.0", "B.0", "A", "B"):
                    ids.append(x[1][0])
                else:
                    raise Unknown("comparison of %r" % (x,))
            r = rel(ids[0], ids[1])
            w.trace.append((nm, ids[0], ids[1]))
            return {"eq": r == "eq", "ne": r != "eq", "lt": r == "lt", "gt": r == "gt", "le": r in ("lt", "eq"), "ge": r in ("gt", "eq")}[nm]
        raise Unknown("call %s" % np_)
    return oracle


def scored(facts):
    r = RuleResult("TABLE-SCORED", "MinScored::cmp / MaxScored::cmp, walked over the six abstract orderings {a<b, a=b, a>b, a NaN, b NaN, both NaN}, "
                                   "is a total order: antisymmetric, Equal exactly on a=b / both-NaN, reversed (MinScored) resp. direct (MaxScored) "
                                   "on ordered scores, NaN consistently at one end (MinScored: NaN last = Less)")
    for (ty, want_lt) in (("MinScored", "Greater"), ("MaxScored", "Less")):
        bs = [b for b in facts.bodies if b.kind == "AssocFn" and b.name == "cmp" and b.impl_trait == "core::cmp::Ord" and b.impl_selfhead == "adt:scored::" + ty]
        if not bs:
            r.bad(Violation("TABLE-SCORED", "scored::%s::cmp" % ty, "anchor-missing", "src/scored.rs", 0, "impl Ord for %s not found - fail closed" % ty))
            continue
        b = bs[0]
        res = {}
        try:
            for s in SCEN:
                w = Walk(facts, b, _scored_oracle(s), {1: ("ref", ("opaque", "A")), 2: ("ref", ("opaque", "B"))})
                v = w.run()
                res[s] = v[2] if isinstance(v, tuple) and v[0] == "enum" else str(v)
        except Unknown as e:
            r.silent += 1
            r.ok(b.npath, "table", "unrecognised construct (%s): silent" % e)
            continue
        rev = {"Less": "Greater", "Greater": "Less", "Equal": "Equal"}
        probs = []
        if res["EQ"] != "Equal":
            probs.append("a = b gives %s, not Equal" % res["EQ"])
        if res["LT"] != want_lt:
            probs.append("a < b gives %s, expected %s" % (res["LT"], want_lt))
        if res["GT"] != rev.get(res["LT"]):
            probs.append("not antisymmetric on ordered scores: a<b -> %s, a>b -> %s" % (res["LT"], res["GT"]))
        if res["NAN_AB"] != "Equal":
            probs.append("both NaN gives %s, not Equal" % res["NAN_AB"])
        if res["NAN_A"] == "Equal" or res["NAN_B"] != rev.get(res["NAN_A"]):
            probs.append("NaN not consistently at one end: a NaN -> %s, b NaN -> %s" % (res["NAN_A"], res["NAN_B"]))
        if ty == "MinScored" and res["NAN_A"] != "Less":
            probs.append("MinScored must order NaN last (cmp(NaN, x) = Less so that a max-heap pops it last), got %s" % res["NAN_A"])
        site = "cmp-table"
        if probs:
            r.bad(Violation("TABLE-SCORED", b.npath, site, b.file, b.line, "%s::cmp decision table %s: %s" % (ty, res, "; ".join(probs)), {"table": res}))
        else:
            r.ok(b.npath, site, "table %s" % res)
        # eq must be defined through cmp
        eqs = [x for x in facts.bodies if x.kind == "AssocFn" and x.name == "eq" and x.impl_trait == "core::cmp::PartialEq" and x.impl_selfhead == "adt:scored::" + ty]
        pcs = [x for x in facts.bodies if x.kind == "AssocFn" and x.name == "partial_cmp" and x.impl_selfhead == "adt:scored::" + ty]
        for x in eqs + pcs:
            calls_cmp = any(last_seg(t["f"]["path"]) == "cmp" and "scored::" + ty in (t["f"].get("self", "") + t["f"].get("resolved", "")) for _, t in x.calls())
            if calls_cmp:
                r.ok(x.npath, "via-cmp", "%s is defined through Ord::cmp of the same type" % x.name)
            else:
                r.bad(Violation("TABLE-SCORED", x.npath, "via-cmp", x.file, x.line,
                                "%s::%s is not defined through the type's own Ord::cmp: eq/partial_cmp could disagree with cmp" % (ty, x.name)))
    r.floor = 6
    return r


# ---------------------------------------------------------------------------- Escaper
def escaper(facts):
    r = RuleResult("TABLE-ESCAPE", "dot::Escaper::write_char, walked over the character classes {'\"', '\\\\', '\\n', other}, writes a backslash "
                                   "before '\"' and '\\\\', replaces '\\n' by \"\\\\l\" and passes every other character through unchanged")
    bs = [b for b in facts.bodies if b.kind == "AssocFn" and b.name == "write_char" and b.impl_selfhead == "adt:dot::Escaper"]
    if not bs:
        r.bad(Violation("TABLE-ESCAPE", "dot::Escaper::write_char", "anchor-missing", "src/dot/mod.rs", 0, "Escaper::write_char not found - fail closed"))
        return r
    b = bs[0]

    def oracle(w, f, args, t):
        np_ = norm_path(f["path"])
        nm = last_seg(np_)
        if nm in ("write_char", "write_str"):
            w.trace.append((nm, deref(args[1]) if len(args) > 1 else None))
            return ("enum", 0, "Ok")
        if np_ == "core::ops::Try::branch":
            return ("enum", 0, "Continue")
        if np_ == "core::ops::FromResidual::from_residual":
            return ("enum", 1, "Err")
        raise Unknown("call %s" % np_)
    want = {34: [("write_char", 92), ("write_char", 34)], 92: [("write_char", 92), ("write_char", 92)],
            10: [("write_str", ("str", "\\l"))], 97: [("write_char", 97)]}
    names = {34: "'\"'", 92: "'\\\\'", 10: "'\\n'", 97: "other ('a')"}
    for c, exp in want.items():
        try:
            w = Walk(facts, b, oracle, {1: ("ref", ("opaque", "SELF")), 2: c})
            w.run()
            got = w.trace
        except Unknown as e:
            r.silent += 1
            r.ok(b.npath, "class " + names[c], "unrecognised construct (%s): silent" % e)
            continue
        if got == exp:
            r.ok(b.npath, "class " + names[c], "writes %s" % got)
        else:
            r.bad(Violation("TABLE-ESCAPE", b.npath, "class " + names[c], b.file, b.line,
                            "for character class %s the escaper writes %s, expected %s: a label can end its quoted string early or "
                            "inject statements" % (names[c], got, exp), {"got": [list(map(str, g)) for g in got]}))
    # write_str must go through write_char for every char
    ws = [x for x in facts.bodies if x.kind == "AssocFn" and x.name == "write_str" and x.impl_selfhead == "adt:dot::Escaper"]
    for x in ws:
        grp = facts.with_closures(x)      # the per-char call may sit in a closure (chars().try_for_each(|c| self.write_char(c)))
        via = any(last_seg(t["f"]["path"]) == "write_char" and "dot::Escaper" in (t["f"].get("self", "") + t["f"].get("resolved", "")) for gb in grp for _, t in gb.calls())
        raw = any(last_seg(t["f"]["path"]) == "write_str" for gb in grp for _, t in gb.calls())
        if via and not raw:
            r.ok(x.npath, "via-write_char", "write_str escapes char by char")
        else:
            r.bad(Violation("TABLE-ESCAPE", x.npath, "via-write_char", x.file, x.line, "Escaper::write_str does not route every char through the escaping write_char"))
    r.floor = 5
    return r


# ---------------------------------------------------------------------------- enum conversion tables
def directions(facts):
    r = RuleResult("TABLE-DIRECTION", "Direction / CompactDirection: both enums list Outgoing, Incoming in the same order (they are compared by "
                                      "discriminant), the From conversions map each variant to its namesake, and opposite() swaps them")
    d = facts.adts.get("Direction")
    c = facts.adts.get("graphmap::CompactDirection")
    if not d or not c:
        r.bad(Violation("TABLE-DIRECTION", "Direction", "anchor-missing", "src/lib.rs", 0, "Direction/CompactDirection ADT facts missing - fail closed"))
        return r
    dn = [v["name"] for v in d["variants"]]
    cn = [v["name"] for v in c["variants"]]
    if dn == cn == ["Outgoing", "Incoming"]:
        r.ok("Direction", "variant-order", "both enums are [Outgoing, Incoming]")
    else:
        r.bad(Violation("TABLE-DIRECTION", "Direction", "variant-order", "src/lib.rs", 0,
                        "Direction %s and CompactDirection %s differ in variant order: `CompactDirection == Direction` compares discriminants" % (dn, cn)))

    def none_oracle(w, f, args, t):
        raise Unknown("call %s" % f["path"])
    specs = []
    for b in facts.bodies:
        if b.kind != "AssocFn":
            continue
        if b.name == "from" and b.impl_trait == "core::convert::From" and b.impl_selfhead in ("adt:graphmap::CompactDirection", "adt:Direction") \
                and ("Direction" in b.lty(1)):
            specs.append((b, "same"))
        if b.name == "opposite" and b.impl_selfhead in ("adt:graphmap::CompactDirection", "adt:Direction") and not b.impl_trait:
            specs.append((b, "swap"))
    for (b, kind) in specs:
        ok = True
        got = {}
        try:
            for i, nm in enumerate(["Outgoing", "Incoming"]):
                w = Walk(facts, b, none_oracle, {1: ("enum", i, nm)})
                v = w.run()
                got[nm] = v[2] if isinstance(v, tuple) and v[0] == "enum" else str(v)
        except Unknown as e:
            r.silent += 1
            r.ok(b.npath, "table", "unrecognised construct (%s): silent" % e)
            continue
        want = {"Outgoing": "Outgoing", "Incoming": "Incoming"} if kind == "same" else {"Outgoing": "Incoming", "Incoming": "Outgoing"}
        site = "%s:%s" % (b.impl_selfhead[4:], b.name)
        if got == want:
            r.ok(b.npath, site, "table %s" % got)
        else:
            r.bad(Violation("TABLE-DIRECTION", b.npath, site, b.file, b.line, "conversion table %s, expected %s" % (got, want)))
    r.floor = 4
    return r


def dot_statics(facts):
    r = RuleResult("TABLE-DOT", "dot::TYPE / dot::EDGE pair `graph` with `--` and `digraph` with `->`, and graph_fmt indexes both by is_directed()")
    t = facts.body("dot::TYPE")
    e = facts.body("dot::EDGE")
    if not t or not e:
        r.bad(Violation("TABLE-DOT", "dot::TYPE", "anchor-missing", "src/dot/mod.rs", 0, "dot::TYPE/EDGE statics not found - fail closed"))
        return r

    def arr(b):
        for _, _, st in b.stmts():
            if st["rv"]["k"] == "agg" and st["rv"]["ak"] == "array":
                return [o.get("const", "?").strip('"') for o in st["rv"]["o"]]
        return None
    ta, ea = arr(t), arr(e)
    ok = ta is not None and ea is not None and len(ta) == len(ea) == 2 and set(ta) == {"graph", "digraph"} and set(ea) == {"--", "->"} \
        and ta.index("digraph") == ea.index("->") == 1
    if ok:
        r.ok("dot::TYPE", "pairing", "TYPE=%s EDGE=%s" % (ta, ea))
    else:
        r.bad(Violation("TABLE-DOT", "dot::TYPE", "pairing", t.file, t.line,
                        "TYPE=%s EDGE=%s: `digraph` must sit at index 1 (is_directed() as usize) together with `->`" % (ta, ea)))
    # both statics indexed by the same is_directed()-derived value in graph_fmt
    for b in facts.find("dot::Dot::graph_fmt"):
        idx = {}
        for gb in facts.with_closures(b):
            for _, _, st in gb.stmts():
                rv = st["rv"]
                pls = [rv["pl"]] if rv["k"] in ("ref",) else [op_place(o) for o in rv.get("o", []) if op_place(o)]
                for pl in pls:
                    base = gb.local_expr(pl["l"], 6)
                    which = None
                    for s in walk_expr(base):
                        if isinstance(s, tuple) and s[0] == "const" and "dot::TYPE" in str(s[1]):
                            which = "TYPE"
                        if isinstance(s, tuple) and s[0] == "const" and "dot::EDGE" in str(s[1]):
                            which = "EDGE"
                    if which:
                        for x in pl["p"]:
                            if isinstance(x, dict) and "ix" in x:
                                ie = gb.local_expr(x["ix"], 8)
                                idx[which] = any(isinstance(s, tuple) and s[0] == "call" and last_seg(s[1]["path"]) == "is_directed" for s in walk_expr(ie))
        if idx.get("TYPE") and idx.get("EDGE"):
            r.ok(b.npath, "indexing", "TYPE[..] and EDGE[..] both indexed by is_directed()")
        else:
            r.silent += 1
            r.ok(b.npath, "indexing", "index provenance not recognised (%s): silent" % idx)
    r.floor = 1
    return r


def visitmap(facts):
    r = RuleResult("TABLE-VISITMAP", "VisitMap for FixedBitSet / HashSet: visit() returns true exactly when the element was not yet in the set, "
                                     "is_visited() is membership, unvisit() removes only a present element")
    def mk_oracle(present):
        def oracle(w, f, args, t):
            nm = last_seg(f["path"])
            if nm in ("put", "contains", "insert", "remove", "is_visited"):
                w.trace.append(nm)
                if nm == "insert":
                    return not present      # HashSet::insert: true if newly inserted
                return present              # put: previous value; contains/remove/is_visited: membership
            if nm in ("toggle", "set"):
                w.trace.append(nm)
                return ("opaque", "unit")
            if nm in ("index", "len"):
                return ("opaque", nm)
            raise Unknown("call %s" % f["path"])
        return oracle
    n = 0
    for b in facts.bodies:
        if b.kind != "AssocFn" or b.impl_trait != "visit::VisitMap" or b.name not in ("visit", "is_visited", "unvisit"):
            continue
        if "quickcheck" in b.file:
            continue
        n += 1
        got = {}
        amb = None
        try:
            import itertools
            for present in (False, True):
                # every comparison the function makes besides the set's own membership answer (e.g. index vs len()) is left free:
                # the result must not depend on it
                outs = set()
                for bits in itertools.product((False, True), repeat=2):
                    w = FreeWalk(facts, b, mk_oracle(present), {1: ("ref", ("opaque", "SET")), 2: ("opaque", "x")}, bits)
                    v = w.run()
                    outs.add((v if isinstance(v, bool) else str(v), tuple(w.trace)))
                    if w.used == 0:
                        break
                if len({o[0] for o in outs}) > 1:
                    amb = (present, sorted(str(o[0]) for o in outs))
                got[present] = sorted(outs, key=str)[0]
        except Unknown as e:
            r.silent += 1
            r.ok(b.npath, b.name, "unrecognised construct (%s): silent" % e)
            continue
        site = "%s for %s" % (b.name, re.sub(r"<.*", "", b.impl_self))
        if amb is not None:
            r.bad(Violation("TABLE-VISITMAP", b.npath, site, b.file, b.line,
                            "VisitMap::%s does not answer from the set's membership alone: for an element that is %s the result depends on another "
                            "comparison (outcomes %s) - e.g. an index beyond the map's length is reported as visited, so a FixedBitSet used as a "
                            "node filter includes nodes it does not cover" % (b.name, "present" if amb[0] else "absent", amb[1])))
            continue
        if b.name == "visit":
            ok = got[False][0] is True and got[True][0] is False and all(any(x in ("put", "insert") for x in g[1]) for g in got.values())
            exp = "true iff newly inserted, inserting in both cases"
        elif b.name == "is_visited":
            ok = got[False][0] is False and got[True][0] is True
            exp = "membership"
        else:
            ok = got[False][0] is False and got[True][0] is True and not any(x in ("toggle", "set") for x in got[False][1]) \
                and any(x in ("toggle", "remove", "set") for x in got[True][1])
            exp = "true iff present; absent element left alone"
        if ok:
            r.ok(b.npath, site, "table absent->%s present->%s (%s)" % (got[False], got[True], exp))
        else:
            r.bad(Violation("TABLE-VISITMAP", b.npath, site, b.file, b.line,
                            "VisitMap::%s table absent->%s present->%s, expected: %s" % (b.name, got[False], got[True], exp)))
    r.floor = 6
    return r


# ---------------------------------------------------------------------------- Edges::next (Graph and StableGraph)
def edges_next(facts):
    r = RuleResult("TABLE-EDGES", "Edges::next of Graph and StableGraph, walked over (directed?, direction) x (first list has an edge / second list has a "
                                  "normal edge / second list has a self-loop): a directed query walks only its own list and never swaps endpoints; an "
                                  "undirected query walks both lists, swaps the endpoints exactly on the list opposite to the queried direction and skips "
                                  "self-loops on the second list")
    targets = [b for b in facts.bodies if b.kind == "AssocFn" and b.name == "next" and b.impl_trait == "core::iter::Iterator"
               and b.impl_selfhead in ("adt:graph_impl::Edges", "adt:graph_impl::stable_graph::Edges")]
    if len(targets) < 2:
        r.bad(Violation("TABLE-EDGES", "Edges::next", "anchor-missing", "src/graph_impl/mod.rs", 0, "Edges::next of Graph/StableGraph not found - fail closed"))
    for b in targets:
        adt = b.impl_selfhead[4:]
        a = facts.adts.get(adt)
        fields = [f["name"] for f in a["variants"][0]["fields"]]
        stable = "stable_graph" in adt
        edge_fields = [f["name"] for f in facts.adts["graph_impl::Edge"]["variants"][0]["fields"]]
        for directed in (True, False):
            for d_idx, d_name in ((0, "Outgoing"), (1, "Incoming")):
                for scen in ("A", "B", "C"):
                    gets = {"n1": 0}

                    def edge(src):
                        vals = {"weight": ("agg", "core::option::Option", "Some", [("opaque", "w")], 1) if stable else ("opaque", "w"),
                                "next": ("agg", "array", "", [("opaque", "E0"), ("opaque", "E1")], None),
                                "node": ("agg", "array", "", [("opaque", src), ("opaque", "tgt")], None)}
                        return ("agg", "graph_impl::Edge", "Edge", [vals[f] for f in edge_fields], 0)

                    def oracle(w, f, args, t):
                        np_ = norm_path(f["path"])
                        nm = last_seg(np_)
                        if nm == "is_directed":
                            return directed
                        if nm == "opposite":
                            v = deref(args[0])
                            return ("enum", 1 - v[1], "Incoming" if v[1] == 0 else "Outgoing")
                        if nm == "unwrap_or":
                            v = deref(args[0])
                            if isinstance(v, tuple) and v[0] == "agg":
                                return v[3][0]
                            return args[1]
                        if nm == "is_none":
                            v = deref(args[0])
                            return isinstance(v, tuple) and v[0] == "enum" and v[2] == "None"
                        if nm in ("eq", "ne"):
                            x, y = deref(args[0]), deref(args[1])

                            def norm(z):
                                if isinstance(z, tuple) and z[0] == "agg" and z[1] == "core::option::Option":
                                    return ("Some", norm(z[3][0]))
                                if isinstance(z, tuple) and z[0] == "enum":
                                    return z[2]
                                return z
                            res = norm(x) == norm(y)
                            return res if nm == "eq" else not res
                        if nm == "index":
                            v = deref(args[0])
                            return ("opaque", "idx:%s" % (v[1] if isinstance(v, tuple) and len(v) > 1 else "?"))
                        if nm == "get":
                            k = deref(args[1])
                            which = 0 if k == ("opaque", "idx:N0") else (1 if k == ("opaque", "idx:N1") else None)
                            w.trace.append(("get", which))
                            if which == 0:
                                if scen == "A":
                                    return ("agg", "core::option::Option", "Some", [("ref", edge("src"))], 1)
                                return ("enum", 0, "None")
                            if which == 1:
                                gets["n1"] += 1
                                if gets["n1"] > 1 or scen == "A":
                                    return ("enum", 0, "None")
                                return ("agg", "core::option::Option", "Some", [("ref", edge("SKIP" if scen == "C" else "src"))], 1)
                            raise Unknown("get(%r)" % (k,))
                        if nm == "swap_pair":
                            w.trace.append(("swap",))
                            return ("opaque", "swapped")
                        if nm in ("edge_index", "new", "as_ref", "unwrap", "is_some"):
                            if nm == "is_some":
                                v = deref(args[0])
                                return isinstance(v, tuple) and v[0] == "agg"
                            if nm == "as_ref":
                                v = deref(args[0])
                                if isinstance(v, tuple) and v[0] == "agg":
                                    return ("agg", v[1], v[2], [("ref", v[3][0])], v[4])
                                return v
                            if nm == "unwrap":
                                v = deref(args[0])
                                return v[3][0] if isinstance(v, tuple) and v[0] == "agg" else ("opaque", "?")
                            return ("opaque", nm)
                        raise Unknown("call %s" % np_)
                    vals = {"skip_start": ("opaque", "SKIP"), "edges": ("opaque", "EDGES"),
                            "next": ("agg", "array", "", [("opaque", "N0"), ("opaque", "N1")], None),
                            "direction": ("enum", d_idx, d_name), "ty": ("opaque", "ty")}
                    selfv = ("agg", adt, "Edges", [vals.get(f, ("opaque", f)) for f in fields], 0)
                    site = "%s:%s:%s:%s" % ("stable" if stable else "graph", "directed" if directed else "undirected", d_name, scen)
                    try:
                        w = Walk(facts, b, oracle, {1: ("ref", selfv)})
                        res = w.run(limit=600)
                    except Unknown as e:
                        r.silent += 1
                        r.ok(b.npath, site, "unrecognised construct (%s): silent" % e)
                        continue
                    stores = [x[2][0] if x[2] else None for x in w.trace if x[0] == "store" and x[1].endswith("next")]
                    swaps = sum(1 for x in w.trace if x[0] == "swap")
                    some = isinstance(res, tuple) and res[0] == "agg" and res[2] == "Some"
                    # expectation
                    own = d_idx
                    if directed:
                        if scen == "A":
                            exp = ([0], 0, True) if own == 0 else ([], 0, False)
                        elif scen == "B":
                            exp = ([], 0, False) if own == 0 else ([1], 0, True)
                        else:
                            exp = ([], 0, False) if own == 0 else ([1], 0, True)
                    else:
                        swap_on = 1 - own       # the list opposite to the queried direction is reported swapped
                        if scen == "A":
                            exp = ([0], 1 if swap_on == 0 else 0, True)
                        elif scen == "B":
                            exp = ([1], 1 if swap_on == 1 else 0, True)
                        else:
                            exp = ([1], 0, False)
                    got = (stores, swaps, some)
                    if got == exp:
                        r.ok(b.npath, site, "cursor stores %s, swaps %d, yields %s" % got)
                    else:
                        r.bad(Violation("TABLE-EDGES", b.npath, site, b.file, b.line,
                                        "Edges::next for a %s graph queried %s (scenario %s: %s): advanced cursors %s, endpoint swaps %d, yielded an edge: %s; "
                                        "expected cursors %s, swaps %d, yield %s" % ("directed" if directed else "undirected", d_name, scen,
                                                                                       {"A": "first list has an edge", "B": "only the second list has an edge", "C": "the second list holds only a self-loop"}[scen],
                                                                                       got[0], got[1], got[2], exp[0], exp[1], exp[2]), {"trace": [str(x) for x in w.trace]}))
    r.floor = 20
    return r


def neighbors_next(facts):
    r = RuleResult("TABLE-NEIGHBORS", "Neighbors::next of Graph and StableGraph: the outgoing list (cursor next[0]) reports each edge's target node[1], the "
                                      "incoming list (cursor next[1]) reports its source node[0] and skips an edge whose source is skip_start (self-loop "
                                      "seen from an undirected/both-lists walk)")
    targets = [b for b in facts.bodies if b.kind == "AssocFn" and b.name == "next" and b.impl_trait == "core::iter::Iterator"
               and b.impl_selfhead in ("adt:graph_impl::Neighbors", "adt:graph_impl::stable_graph::Neighbors")]
    if len(targets) < 2:
        r.bad(Violation("TABLE-NEIGHBORS", "Neighbors::next", "anchor-missing", "src/graph_impl/mod.rs", 0, "Neighbors::next of Graph/StableGraph not found - fail closed"))
    edge_fields = [f["name"] for f in facts.adts["graph_impl::Edge"]["variants"][0]["fields"]]
    for b in targets:
        adt = b.impl_selfhead[4:]
        fields = [f["name"] for f in facts.adts[adt]["variants"][0]["fields"]]
        stable = "stable_graph" in adt
        for scen, exp in (("A", ([0], "tgt")), ("B", ([1], "src")), ("C", ([1], None))):
            gets = {"n1": 0}

            def edge(src):
                vals = {"weight": ("agg", "core::option::Option", "Some", [("opaque", "w")], 1) if stable else ("opaque", "w"),
                        "next": ("agg", "array", "", [("opaque", "E0"), ("opaque", "E1")], None),
                        "node": ("agg", "array", "", [("opaque", src), ("opaque", "tgt")], None)}
                return ("agg", "graph_impl::Edge", "Edge", [vals[f] for f in edge_fields], 0)

            def oracle(w, f, args, t):
                nm = last_seg(norm_path(f["path"]))
                if nm in ("is_some", "is_none"):
                    v = deref(args[0])
                    some = isinstance(v, tuple) and v[0] == "agg"
                    return some if nm == "is_some" else not some
                if nm in ("eq", "ne"):
                    res = deref(args[0]) == deref(args[1])
                    return res if nm == "eq" else not res
                if nm == "index":
                    v = deref(args[0])
                    return ("opaque", "idx:%s" % (v[1] if isinstance(v, tuple) and len(v) > 1 else "?"))
                if nm == "get":
                    k = deref(args[1])
                    which = 0 if k == ("opaque", "idx:N0") else (1 if k == ("opaque", "idx:N1") else None)
                    if which == 0:
                        return ("agg", "core::option::Option", "Some", [("ref", edge("src"))], 1) if scen == "A" else ("enum", 0, "None")
                    if which == 1:
                        gets["n1"] += 1
                        if gets["n1"] > 1 or scen == "A":
                            return ("enum", 0, "None")
                        return ("agg", "core::option::Option", "Some", [("ref", edge("SKIP" if scen == "C" else "src"))], 1)
                    raise Unknown("get(%r)" % (k,))
                raise Unknown("call %s" % f["path"])
            vals = {"skip_start": ("opaque", "SKIP"), "edges": ("opaque", "EDGES"),
                    "next": ("agg", "array", "", [("opaque", "N0"), ("opaque", "N1")], None)}
            selfv = ("agg", adt, "Neighbors", [vals.get(f, ("opaque", f)) for f in fields], 0)
            site = "%s:%s" % ("stable" if stable else "graph", scen)
            try:
                w = Walk(facts, b, oracle, {1: ("ref", selfv)})
                res = w.run(limit=600)
            except Unknown as e:
                r.silent += 1
                r.ok(b.npath, site, "unrecognised construct (%s): silent" % e)
                continue
            stores = [x[2][0] if x[2] else None for x in w.trace if x[0] == "store" and x[1].endswith("next")]
            got = None
            if isinstance(res, tuple) and res[0] == "agg" and res[2] == "Some":
                v = deref(res[3][0])
                got = v[1] if isinstance(v, tuple) and v[0] == "opaque" else str(v)
            if (stores, got) == exp:
                r.ok(b.npath, site, "cursor stores %s, reports %s" % (stores, got))
            else:
                r.bad(Violation("TABLE-NEIGHBORS", b.npath, site, b.file, b.line,
                                "Neighbors::next scenario %s (%s): advanced cursors %s and reported %s; expected cursors %s and %s"
                                % (scen, {"A": "outgoing list has an edge", "B": "only the incoming list has an edge", "C": "incoming list holds a self-loop of skip_start"}[scen],
                                   stores, got, exp[0], exp[1])))
    r.floor = 6
    return r


def control_flow(facts):
    r = RuleResult("TABLE-CONTROLFLOW", "the ControlFlow impls that drive depth_first_search: Control::{Continue, Prune, Break} answer should_break / "
                                        "should_prune by their own variant, () never breaks or prunes, and Result<C, E> forwards Ok(c) to the SAME method of c "
                                        "and treats Err as break-not-prune")
    impls = [b for b in facts.bodies if b.kind == "AssocFn" and b.impl_trait == "visit::dfsvisit::ControlFlow" and b.name in ("should_break", "should_prune")]
    if len(impls) < 4:
        r.bad(Violation("TABLE-CONTROLFLOW", "visit::dfsvisit::ControlFlow", "anchor-missing", "src/visit/dfsvisit.rs", 0, "ControlFlow impls not found - fail closed"))
    for b in impls:
        head = b.impl_selfhead

        def oracle(w, f, args, t):
            nm = last_seg(f["path"])
            if nm in ("should_break", "should_prune"):
                w.trace.append(nm)
                return ("opaque", "inner." + nm)
            if nm == "as_ref":
                v = deref(args[0])
                if isinstance(v, tuple) and v[0] == "agg":
                    return ("agg", v[1], v[2], [("ref", x) for x in v[3]], v[4])
                return v
            if nm in ("map_or", "is_ok_and", "is_some_and", "map_or_else"):
                v = deref(args[0])
                fnv = args[-1]
                default = args[1] if nm == "map_or" else False
                if isinstance(v, tuple) and v[0] == "agg" and v[2] in ("Ok", "Some"):
                    if isinstance(fnv, tuple) and fnv[0] == "fn":
                        m = last_seg(fnv[1])
                        w.trace.append(m)
                        return ("opaque", "inner." + m)
                    raise Unknown("closure argument")
                return default
            if nm in ("is_ok", "is_err", "is_some", "is_none"):
                v = deref(args[0])
                ok = isinstance(v, tuple) and v[0] == "agg" and v[2] in ("Ok", "Some")
                return ok if nm in ("is_ok", "is_some") else not ok
            raise Unknown("call %s" % f["path"])
        cases = []
        if head == "adt:visit::dfsvisit::Control":
            a = facts.adts["visit::dfsvisit::Control"]["variants"]
            for i, v in enumerate(a):
                val = ("enum", i, v["name"]) if not v["fields"] else ("agg", "visit::dfsvisit::Control", v["name"], [("opaque", "b")], i)
                want = (v["name"] == "Break") if b.name == "should_break" else (v["name"] == "Prune")
                cases.append((v["name"], val, want))
        elif head == "adt:core::result::Result":
            cases.append(("Ok(c)", ("agg", "core::result::Result", "Ok", [("opaque", "c")], 0), ("opaque", "inner." + b.name)))
            cases.append(("Err(e)", ("agg", "core::result::Result", "Err", [("opaque", "e")], 1), b.name == "should_break"))
        elif head == "tuple":
            cases.append(("()", ("opaque", "unit"), False))
        else:
            r.silent += 1
            r.ok(b.npath, b.name, "impl for %s not modelled (silent)" % head)
            continue
        for (nm, val, want) in cases:
            site = "%s(%s)" % (b.name, nm)
            try:
                w = Walk(facts, b, oracle, {1: ("ref", val)})
                got = w.run()
            except Unknown as e:
                r.silent += 1
                r.ok(b.npath, site, "unrecognised construct (%s): silent" % e)
                continue
            if got == want:
                r.ok(b.npath, site, "-> %s" % (got,))
            else:
                r.bad(Violation("TABLE-CONTROLFLOW", b.npath, site, b.file, b.line,
                                "%s for %s on %s returns %s, expected %s: a visitor's Prune/Break request would be misread by depth_first_search"
                                % (b.name, head[4:] if head.startswith("adt:") else head, nm, got, want)))
    r.floor = 8
    return r


def graphmap_iters(facts):
    r = RuleResult("TABLE-GRAPHMAP", "GraphMap's adjacency filters: for a directed map neighbors() keeps exactly the Outgoing entries; neighbors_directed(dir) "
                                     "keeps an entry iff its direction equals the queried one or it is the start node itself (a self-loop is stored once, as "
                                     "Outgoing, and must be visible in both directions); edges_directed swaps (a, b) exactly for Incoming")

    def find(prefix):
        return [b for b in facts.bodies if b.kind == "Closure" and b.path.startswith(prefix)]

    def cdir(i):
        return ("enum", i, ["Outgoing", "Incoming"][i])

    def oracle(w, f, args, t):
        nm = last_seg(f["path"])
        if nm in ("eq", "ne"):
            x, y = deref(args[0]), deref(args[1])

            def norm(z):
                return z[2] if isinstance(z, tuple) and z[0] == "enum" else z
            res = norm(x) == norm(y)
            return res if nm == "eq" else not res
        if nm == "swap":
            w.trace.append("swap")
            return ("opaque", "unit")
        raise Unknown("call %s" % f["path"])
    # 1 + 2. Neighbors::next / NeighborsDirected::next, walked as whole functions over a one-entry adjacency row (whatever form the
    #        filtering takes: filter_map + next, find, an explicit loop, ...)
    def row_oracle(entry, directed):
        state = {"left": [entry]}

        def call_closure(w, clo, arg):
            clo_v = deref(clo)
            if not (isinstance(clo_v, tuple) and clo_v[0] == "agg" and str(clo_v[1]).startswith("closure:")):
                raise Unknown("not a closure: %r" % (clo_v,))
            cb = facts.body(clo_v[1][len("closure:"):])
            if cb is None:
                raise Unknown("closure body")
            sub = Walk(facts, cb, orc, {1: clo if cb.lty(1).startswith("&") else clo_v, 2: arg})
            sub._closure_ok = True
            return sub.run()

        def pull(w, it):
            it = deref(it)
            if it == ("rawiter",):
                if state["left"]:
                    return ("agg", "core::option::Option", "Some", [("ref", state["left"].pop(0))], 1)
                return ("enum", 0, "None")
            if isinstance(it, tuple) and it[0] == "adapt":
                kind, inner, clo = it[1], it[2], it[3]
                for _ in range(4):
                    v = pull(w, inner)
                    if not (isinstance(v, tuple) and v[0] == "agg" and v[2] == "Some"):
                        return ("enum", 0, "None")
                    x = v[3][0]
                    if kind == "filter_map":
                        r_ = call_closure(w, clo, x)
                        if isinstance(r_, tuple) and r_[0] == "agg" and r_[2] == "Some":
                            return r_
                    elif kind == "map":
                        return ("agg", "core::option::Option", "Some", [call_closure(w, clo, x)], 1)
                    elif kind == "filter":
                        if call_closure(w, clo, ("ref", x)) is True:
                            return v
                    elif kind in ("copied", "cloned"):
                        return ("agg", "core::option::Option", "Some", [deref(x)], 1)
                    else:
                        raise Unknown("adaptor %s" % kind)
                return ("enum", 0, "None")
            raise Unknown("next on %r" % (it,))

        def orc(w, f, args, t):
            np_ = norm_path(f["path"])
            nm = last_seg(np_)
            if nm == "is_directed":
                return directed
            if nm in ("eq", "ne") and len(args) == 2:
                x, y = deref(args[0]), deref(args[1])

                def norm(z):
                    return z[2] if isinstance(z, tuple) and z[0] == "enum" else z
                res = norm(x) == norm(y)
                return res if nm == "eq" else not res
            if nm in ("filter_map", "map", "filter") and np_.startswith("core::iter::"):
                return ("adapt", nm, args[0], args[1])
            if nm in ("copied", "cloned", "by_ref", "into_iter") and np_.startswith("core::iter::"):
                return ("adapt", nm, args[0], None) if nm in ("copied", "cloned") else args[0]
            if nm == "next" and np_.startswith("core::iter::"):
                return pull(w, args[0])
            if nm == "find" and np_.startswith("core::iter::"):
                for _ in range(4):
                    v = pull(w, args[0])
                    if not (isinstance(v, tuple) and v[0] == "agg" and v[2] == "Some"):
                        return ("enum", 0, "None")
                    if call_closure(w, args[1], ("ref", v[3][0])) is True:
                        return v
                return ("enum", 0, "None")
            if nm == "find_map" and np_.startswith("core::iter::"):
                for _ in range(4):
                    v = pull(w, args[0])
                    if not (isinstance(v, tuple) and v[0] == "agg" and v[2] == "Some"):
                        return ("enum", 0, "None")
                    r_ = call_closure(w, args[1], v[3][0])
                    if isinstance(r_, tuple) and r_[0] == "agg" and r_[2] == "Some":
                        return r_
                return ("enum", 0, "None")
            if nm == "map" and np_.startswith("core::option::Option"):
                opt = args[0]
                if isinstance(opt, tuple) and opt[0] == "agg" and opt[2] == "Some":
                    return ("agg", "core::option::Option", "Some", [call_closure(w, args[1], opt[3][0])], 1)
                return opt
            if np_ == "core::ops::Try::branch":
                opt = args[0]
                if isinstance(opt, tuple) and opt[0] == "agg" and opt[2] == "Some":
                    return ("agg", "core::ops::ControlFlow", "Continue", [opt[3][0]], 0)
                return ("agg", "core::ops::ControlFlow", "Break", [("opaque", "residual")], 1)
            if np_ == "core::ops::FromResidual::from_residual":
                return ("enum", 0, "None")
            raise Unknown("call %s" % np_)
        return orc

    def closure_patch():
        orig = Walk.rvalue

        def rvalue(self, rv):
            if rv["k"] == "agg" and rv.get("ak") == "closure":
                return ("agg", "closure:" + rv["name"], "", [self.operand(o) for o in rv["o"]], None)
            return orig(self, rv)
        if not getattr(Walk, "_closure_patched", False):
            Walk.rvalue = rvalue
            Walk._closure_patched = True
    closure_patch()

    def walk_iter(b, fields_vals, entry):
        adt = facts.adts.get(b.impl_selfhead[4:] if b.impl_selfhead.startswith("adt:") else "")
        if not adt:
            raise Unknown("iterator struct not found")
        ops = [fields_vals.get(f["name"], ("opaque", f["name"])) for f in adt["variants"][0]["fields"]]
        selfv = ("agg", adt["path"], adt["variants"][0]["name"], ops, 0)
        w = Walk(facts, b, row_oracle(entry, True), {1: ("ref", selfv)})
        return w.run(600)

    nb = [b for b in facts.bodies if b.kind == "AssocFn" and b.name == "next" and b.impl_trait == "core::iter::Iterator" and b.impl_selfhead == "adt:graphmap::Neighbors"]
    if not nb:
        r.bad(Violation("TABLE-GRAPHMAP", "graphmap::Neighbors::next", "anchor-missing", "src/graphmap.rs", 0, "Neighbors::next not found - fail closed"))
    for b in nb:
        for d in (0, 1):
            entry = ("agg", "tuple", "", [("opaque", "n"), cdir(d)], None)
            site = "neighbors:entry=%s" % cdir(d)[2]
            try:
                res = walk_iter(b, {"iter": ("rawiter",)}, entry)
            except Unknown as e:
                r.silent += 1
                r.ok(b.npath, site, "unrecognised construct (%s): silent" % e)
                continue
            kept = isinstance(res, tuple) and res[0] == "agg" and res[2] == "Some"
            if kept == (d == 0):
                r.ok(b.npath, site, "kept=%s" % kept)
            else:
                r.bad(Violation("TABLE-GRAPHMAP", b.npath, site, b.file, b.line, "directed neighbors(): an %s entry is %s; only Outgoing entries are successors"
                                % (cdir(d)[2], "kept" if kept else "dropped")))
    nd = [b for b in facts.bodies if b.kind == "AssocFn" and b.name == "next" and b.impl_trait == "core::iter::Iterator" and b.impl_selfhead == "adt:graphmap::NeighborsDirected"]
    if not nd:
        r.bad(Violation("TABLE-GRAPHMAP", "graphmap::NeighborsDirected::next", "anchor-missing", "src/graphmap.rs", 0, "NeighborsDirected::next not found - fail closed"))
    for b in nd:
        for q in (0, 1):
            for d in (0, 1):
                for same in (False, True):
                    qd = ("enum", q, ["Outgoing", "Incoming"][q])
                    entry = ("agg", "tuple", "", [("opaque", "start" if same else "other"), cdir(d)], None)
                    site = "neighbors_directed:query=%s,entry=%s,%s" % (qd[2], cdir(d)[2], "start-node" if same else "other-node")
                    try:
                        res = walk_iter(b, {"iter": ("rawiter",), "start_node": ("opaque", "start"), "dir": qd}, entry)
                    except Unknown as e:
                        r.silent += 1
                        r.ok(b.npath, site, "unrecognised construct (%s): silent" % e)
                        continue
                    kept = isinstance(res, tuple) and res[0] == "agg" and res[2] == "Some"
                    want = (q == d) or same
                    if kept == want:
                        r.ok(b.npath, site, "kept=%s" % kept)
                    else:
                        r.bad(Violation("TABLE-GRAPHMAP", b.npath, site, b.file, b.line,
                                        "directed neighbors_directed(%s): an %s entry for %s is %s, expected %s (a self-loop is stored once as Outgoing and "
                                        "must be listed for Incoming too)" % (qd[2], cdir(d)[2], "the start node itself" if same else "another node",
                                                                               "kept" if kept else "dropped", "kept" if want else "dropped")))
    # 3. EdgesDirected::next closure: swap exactly for Incoming
    cs = find("<graphmap::EdgesDirected<'a, N, E, Ty, S> as core::iter::Iterator>::next::{closure#0}")
    for b in cs:
        n_swaps = sum(1 for _, t in b.calls() if last_seg(t["f"]["path"]) == "swap")
        ok = False
        from .guard import dom_atoms
        for i, t in b.calls():
            if last_seg(t["f"]["path"]) == "swap":
                for (e, truth, src) in dom_atoms(b, i):
                    if isinstance(e, tuple) and e[0] == "bin" and e[1] == "Eq" and truth is True and any(isinstance(s, tuple) and s[0] == "enum" or (isinstance(s, tuple) and s[0] == "agg" and s[2] == "Incoming") for s in walk_expr(e)):
                        ok = True
                    if isinstance(e, tuple) and e[0] == "bin" and e[1] == "Eq" and truth is True and "Incoming" in str(e):
                        ok = True
        if n_swaps == 1 and ok:
            r.ok(b.npath, "edges_directed:swap", "endpoints swapped exactly under dir == Incoming")
        else:
            r.silent += 1
            r.ok(b.npath, "edges_directed:swap", "swap guard not recognised (%d swaps): silent" % n_swaps)
    r.floor = 8
    return r
