"""Structural clauses added after the fifth round of independently seeded changes.

Same discipline as algo_rules: every clause is a necessary condition of its property that is visible in the
shape of the code, is keyed on resolved definitions / field names / dominance / reachability (never on text or
positions), names the input class on which a violation manifests, is silent on shapes it does not recognise
and fails closed when its anchor disappears.
"""
import re

from .core import op_place, op_local, callee_name, last_seg, norm_path, walk_expr
from .report import RuleResult, Violation
from .guard import (Obl, dom_atoms, call_atom, has_call, agg_sites, calls_named, named_roots, roots_named, reach, derived_locals,
                    return_some_sites)
from .tag import leaves, strip_casts
from .table import Walk, FreeWalk, Unknown, deref


def proj_base(e):
    """strip references, casts and place projections: the value an expression is a pure projection of"""
    while isinstance(e, tuple):
        e = strip_casts(e)
        if isinstance(e, tuple) and e[0] == "place":
            e = e[1]
        elif isinstance(e, tuple) and e[0] == "ref":
            e = e[2]
        else:
            break
    return e


# ------------------------------------------------------------------------------------------------ C19
def rank_increment(facts):
    o = Obl("GUARD-RANK", "UnionFind::try_union increments a root's rank only when the two roots have EQUAL rank (union by rank keeps "
                          "rank <= log2(len), which is what lets the rank live in a u8): every mutable access to `rank` is dominated by the "
                          "Equal outcome of comparing the two ranks")
    for b in o.need_fn(facts, "unionfind::UnionFind::try_union"):
        n = 0
        sinks = []
        for i, t in calls_named(b, ("index_mut", "get_unchecked_mut", "get_mut")):
            if t["args"] and ("field", "rank") in leaves(b.expr(t["args"][0], 8)):
                sinks.append((i, t["line"]))
        for i, j, st in b.stmts():
            if any(isinstance(x, dict) and x.get("n") == "rank" for x in st["lhs"]["p"]):
                sinks.append((i, st["line"]))
        for (i, line) in sinks:
            n += 1
            ok = False
            for (e, truth, src) in dom_atoms(b, i):
                if isinstance(e, tuple) and e[0] == "discr":
                    c = call_atom(e[1], ("core::cmp::Ord::cmp", "cmp"))
                    if c is not None and truth == 0 and ("field", "rank") in leaves(c):
                        ok = True
                if isinstance(e, tuple) and e[0] == "bin" and e[1] == "Eq" and truth is True and ("field", "rank") in leaves(e):
                    ok = True
            o.check(b, "rank-write#%d" % n, line, ok, "rank written only under xrank == yrank",
                    "a root's rank is modified on a path where the two ranks were not compared Equal: ranks then grow linearly with the number "
                    "of unions won instead of logarithmically, and `rank: Vec<u8>` overflows (debug panic in try_union/union on in-range "
                    "arguments after 256 unions into one root; silent wrap and unbalanced trees in release)")
        o.check(b, "rank-writes", b.line, n >= 1, "%d rank write site(s)" % n, "no write to `rank` found in try_union")
    o.r.floor = 2
    return o.r


# ------------------------------------------------------------------------------------------------ C20
def simple_paths_min(facts):
    o = Obl("GUARD-MINLEN", "all_simple_paths yields a path only under visited.len() >= min_length, where min_length derives from the "
                            "min_intermediate_nodes parameter: both yield sites (target reached below the maximum; look-ahead at the maximum)")
    for root in o.need_fn(facts, "algo::simple_paths::all_simple_paths"):
        n = 0
        group = facts.with_closures(root)
        # which closure upvars derive from the min_intermediate_nodes parameter (argument 4)?
        minv = {}
        for i, j, st in root.stmts():
            rv = st["rv"]
            if rv["k"] == "agg" and rv.get("ak") == "closure":
                for ui, op in enumerate(rv["o"]):
                    e = root.expr(op, 10)
                    if ("arg", 4) in leaves(e) and ("arg", 5) not in leaves(e):
                        minv.setdefault(rv["name"], set()).add(ui)
        for b in group:
            if b.kind != "Closure":
                continue
            ups = minv.get(b.path, set()) | minv.get(b.npath, set())
            for i, j, st in return_some_sites(b):
                n += 1
                ok = False
                for (e, truth, src) in dom_atoms(b, i):
                    if not (isinstance(e, tuple) and e[0] == "bin" and e[1] in ("Ge", "Gt", "Le", "Lt") and truth is True):
                        continue
                    sides = [e[2], e[3]]
                    has_len = [has_call(s, ("len",)) for s in sides]
                    has_min = [any(isinstance(x, tuple) and x[0] == "place" and x[1] == ("arg", 1) and any(isinstance(p, tuple) and p[0] == "f" and p[1] in ups for p in x[2])
                                   for x in walk_expr(s)) for s in sides]
                    if e[1] in ("Ge", "Gt") and has_len[0] and has_min[1]:
                        ok = True
                    if e[1] in ("Le", "Lt") and has_min[0] and has_len[1]:
                        ok = True
                o.check(b, "yield#%d" % n, st["line"], ok, "path yielded only under visited.len() >= min_length",
                        "a path is yielded without the `visited.len() >= min_length` test dominating the yield: with a lower bound that the path "
                        "cannot meet (min > max, or min >= node_count - 1 with no maximum) paths shorter than the minimum are returned")
        o.check(root, "yields", root.line, n >= 2, "%d yield site(s)" % n, "expected the two yield sites of all_simple_paths, found %d" % n)
    o.r.floor = 3
    return o.r


# ------------------------------------------------------------------------------------------------ C16
def dominators_root(facts):
    o = Obl("GUARD-DOMROOT", "Dominators: the idom map stores the self entry root -> root; a method of Dominators reads a VALUE of that map "
                             "(HashMap::get / index) only under `node != self.root`, and the map iterator is filtered by key != value - so the root "
                             "never appears as its own (strict / immediate) dominator")
    n = 0
    for b in facts.bodies:
        if b.file != "src/algo/dominators.rs" or b.kind not in ("AssocFn", "Closure"):
            continue
        if not (b.impl_selfhead or "").endswith("dominators::Dominators"):
            continue
        for i, t in b.calls():
            nm = last_seg(t["f"]["path"])
            if nm not in ("get", "get_mut", "index", "get_key_value", "remove") or "HashMap" not in norm_path(t["f"]["path"]) + t["f"].get("self", ""):
                continue
            if not t["args"] or ("field", "dominators") not in leaves(b.expr(t["args"][0], 8)):
                continue
            n += 1
            # only the PRESENCE of an entry is looked at (match get(..) { Some(_) => .., None => .. }, is_some()): no value is read
            d = t["dest"]["l"] if not t["dest"]["p"] else None
            if d is not None:
                uses_payload = False
                for i2, j2, st2 in b.stmts():
                    pls = [st2["lhs"]] + ([st2["rv"]["pl"]] if st2["rv"].get("pl") and st2["rv"]["k"] != "discr" else []) + \
                          [q for q in (op_place(o_) for o_ in st2["rv"].get("o", [])) if q]
                    for pl in pls:
                        if pl["l"] == d and (st2["rv"]["k"] != "discr" or pl is not st2["rv"].get("pl")):
                            uses_payload = True
                for i2, t2 in b.calls():
                    for a in t2["args"]:
                        q = op_place(a)
                        if q and q["l"] == d and last_seg(t2["f"]["path"]) not in ("is_some", "is_none"):
                            uses_payload = True
                if not uses_payload:
                    o.check(b, "idom-read#%d" % n, t["line"], True, "only the presence of the entry is tested, no idom value is read", "")
                    continue
            ok = any(isinstance(e, tuple) and e[0] == "bin" and e[1] == "Ne" and truth is True and ("field", "root") in leaves(e)
                     for (e, truth, src) in dom_atoms(b, i))
            o.check(b, "idom-read#%d" % n, t["line"], ok, "idom value read only under node != self.root",
                    "a value of the idom map is read without the `node != self.root` test: for the root the map holds the self entry "
                    "root -> root, so the root is reported as its own immediate / strict dominator")
    for b in o.need_fn(facts, "«algo::dominators::DominatedByIter as core::iter::Iterator»::next"):
        k = 0
        for i, j, st in return_some_sites(b):
            k += 1
            ok = any(isinstance(e, tuple) and e[0] == "bin" and e[1] == "Ne" and truth is True for (e, truth, src) in dom_atoms(b, i))
            o.check(b, "dominated-by#%d" % k, st["line"], ok, "map entries with key == value (the root's self entry) are skipped",
                    "immediately_dominated_by yields a map entry without the key != value test: the root is reported as dominated by itself")
    o.check_n = n
    o.r.floor = 2
    return o.r


# ------------------------------------------------------------------------------------------------ C10
def close_only_popped(facts):
    o = Obl("FLOW-CLOSE", "dijkstra: the closed set (`visited`) only ever receives the node that was just popped from the priority queue - the "
                          "argument of VisitMap::visit is a pure projection of BinaryHeap::pop()'s result, never a neighbour reached through an edge")
    for b in o.need_fn(facts, "algo::dijkstra::dijkstra"):
        n = 0
        for i, t in b.calls():
            if not norm_path(t["f"]["path"]).endswith("VisitMap::visit") or len(t["args"]) < 2:
                continue
            n += 1
            base = proj_base(b.expr(t["args"][1], 12))
            ok = isinstance(base, tuple) and base[0] == "call" and last_seg(base[1]["path"]) == "pop" and "BinaryHeap" in norm_path(base[1]["path"])
            if not ok:
                # the popped element may be re-tupled and bound to names first: `let (score, node) = match heap.pop() { Some(MinScored(s, n)) => (s, n), .. }`
                pops = [tp["dest"]["l"] for _, tp in b.calls() if last_seg(tp["f"]["path"]) == "pop" and "BinaryHeap" in norm_path(tp["f"]["path"])]
                dl = derived_locals(b, pops)
                al = op_local(t["args"][1])
                roots = {x[1] for x in named_roots(b, t["args"][1]) if x[0] == "local"} | ({al} if al is not None else set())
                ok = bool(roots) and roots <= dl
            o.check(b, "visit#%d" % n, t["line"], ok, "closes the popped node",
                    "a node that was not popped from the heap is put into the closed set: its tentative score is treated as final, later cheaper "
                    "relaxations of it are discarded (is_visited) and every node behind it gets a cost that is too large")
        o.check(b, "visits", b.line, n >= 1, "%d visit site(s)" % n, "no VisitMap::visit call found in dijkstra")
    o.r.floor = 2
    return o.r


# ------------------------------------------------------------------------------------------------ C15
def visitor_then_mark(facts):
    o = Obl("PAIR-VISITOR", "matching::non_backtracking_dfs: a node handed to the visitor callback (which pairs it up) is always traversed next - "
                            "every path from the visitor call to the function's return passes through the recursive call on that node (whose first "
                            "action marks it visited) or a VisitMap::visit")
    for b in o.need_fn(facts, "algo::matching::non_backtracking_dfs"):
        succ = b.cfg()[0]
        rets = [i for i, bl in enumerate(b.blocks) if bl["term"]["k"] == "return"]
        marks = {i for i, t in b.calls() if callee_name(t["f"]).endswith("non_backtracking_dfs") or norm_path(t["f"]["path"]).endswith("VisitMap::visit")}
        n = 0
        # which parameter is the function's own node: the one the entry test-and-set marks (position-independent)
        own = 2
        for i, t in b.calls():
            if norm_path(t["f"]["path"]).endswith("VisitMap::visit") and all(b.dominates(i, j) for j, _ in b.calls()) and len(t["args"]) > 1:
                ps = [x[1] for x in named_roots(b, t["args"][1]) if x[0] == "arg"]
                if len(ps) == 1:
                    own = ps[0]

        def marked(m):
            a = b.blocks[m]["term"]["args"]
            k = own - 1 if callee_name(b.blocks[m]["term"]["f"]).endswith("non_backtracking_dfs") else 1
            return named_roots(b, a[k]) if len(a) > k else set()
        for i, t in b.calls():
            f = t["f"]
            if f.get("trait") not in ("core::ops::FnMut", "core::ops::Fn", "core::ops::FnOnce"):
                continue
            n += 1
            tgt = named_roots(b, t["args"][1]) if len(t["args"]) > 1 else set()
            good = {m for m in marks if m != i and marked(m) & tgt}
            esc = [r_ for r_ in rets if succ[i] and r_ in reach(b, succ[i][0], avoid=good)]
            o.check(b, "visitor#%d" % n, t["line"], bool(good) and not esc, "the visited node is always marked (recursive call) after the callback",
                    "after visitor(target) some path reaches the return without traversing / marking target: the node has been paired by the "
                    "callback but stays unvisited, so a later start pairs it a second time (mate is no longer symmetric, a node is matched twice)")
        o.check(b, "visitor-calls", b.line, n >= 1, "%d callback site(s)" % n, "visitor callback not found")
        # the function's first action is the test-and-set on its own node
        first = None
        for i, t in b.calls():
            if norm_path(t["f"]["path"]).endswith("VisitMap::visit") and all(b.dominates(i, j) for j, _ in b.calls()):
                first = i
        o.check(b, "entry-mark", b.line, first is not None, "visited.visit(source) dominates every other call",
                "non_backtracking_dfs does not start by marking its own node visited")
    o.r.floor = 3
    return o.r


# ------------------------------------------------------------------------------------------------ C05 / C01 / C02 / C04 / C06
SOURCE_CALLS = ("next", "next_back", "pop", "pop_front", "pop_back", "get", "nth")
ITER_FILES = ("src/csr.rs", "src/graph_impl/", "src/matrix_graph.rs", "src/adj.rs", "src/graphmap.rs", "src/visit/filter.rs", "src/visit/reversed.rs",
              "src/visit/undirected_adaptor.rs")


def none_after_some(facts):
    r = RuleResult("NONE-AFTER-SOME", "enumeration iterators of the graph types (Iterator::next in csr, graph_impl, matrix_graph, adj, graphmap, filter): "
                                      "the end of the iteration (return None) is never reached on a path on which an element was just taken from the "
                                      "underlying source (the Some arm of an inner next()/pop()/get()) - an iterator may skip an element, it may not "
                                      "stop at one and drop the rest")
    n = 0
    for b in facts.bodies:
        if b.kind != "AssocFn" or b.name not in ("next", "next_back") or b.impl_trait not in ("core::iter::Iterator", "core::iter::DoubleEndedIterator"):
            continue
        if not b.file.startswith(ITER_FILES):
            continue
        sites = []
        for i, j, st in b.stmts():
            rv = st["rv"]
            if st["lhs"]["l"] == 0 and not st["lhs"]["p"] and rv["k"] == "agg" and rv.get("name") == "core::option::Option" and rv.get("variant") == "None":
                sites.append((i, st["line"]))
        # `inner.next()?` - the end of the iteration is the inner iterator's own end: fine by construction, counted as a site
        for i, t in b.calls():
            if last_seg(t["f"]["path"]) == "from_residual" and t["dest"]["l"] == 0 and not t["dest"]["p"]:
                n += 1
                r.ok(b.npath, "none-propagated@%d" % len([x for x in r.instances if x["func"] == b.npath]), "`?` on the underlying source: ends exactly when it ends")
        k = 0
        for (i, line) in sites:
            k += 1
            n += 1
            bad = []
            for (e, truth, src) in dom_atoms(b, i):
                if isinstance(e, tuple) and e[0] == "discr" and truth == 1:
                    c = strip_casts(e[1])
                    if isinstance(c, tuple) and c[0] == "call" and last_seg(c[1]["path"]) in SOURCE_CALLS and c[1].get("crate") != "petgraph":
                        bad.append((last_seg(c[1]["path"]), b.blocks[src]["term"]["line"]))
            if bad:
                r.bad(Violation("NONE-AFTER-SOME", b.npath, "none#%d" % k, b.file, line,
                                "the iteration ends (return None) right after an element was obtained from the underlying source (%s() = Some at line %s): "
                                "the remaining elements are never yielded - e.g. the edges of the last row / the nodes after the tested one are dropped"
                                % (bad[0][0], bad[0][1])))
            else:
                r.ok(b.npath, "none#%d" % k, "end of iteration not conditional on a taken element")
    r.floor = 10
    r.floor_what = "explicit end-of-iteration sites"
    return r


# ------------------------------------------------------------------------------------------------ C01 / C02
DIR_PARAM_SKIP = ("graph_impl::Graph::remove_node", "graph_impl::Graph::change_edge_links", "graph_impl::stable_graph::StableGraph::remove_node")


def _dir_index_calls(e):
    out = []
    for s in walk_expr(e):
        if isinstance(s, tuple) and s[0] == "call" and last_seg(s[1]["path"]) == "index" and "Direction" in (s[1].get("self", "") + s[1]["path"]):
            a = strip_casts(s[2][0]) if s[2] else None
            out.append("const" if (isinstance(a, tuple) and (a[0] in ("const", "enum") or (a[0] == "agg" and not a[3]))) else "var")
    return out


def dir_param_index(facts):
    r = RuleResult("DIRIDX-PARAM", "in the direction-parametrised accessors of Graph and StableGraph (a body that indexes next[]/node[] by k = dir.index() "
                                   "of its own direction: next_edge, first_edge, Externals::next, EdgesWalkerMut::next, find_edge_undirected_from_node) "
                                   "EVERY access to a direction array is indexed by a value derived from that direction (k or 1 - k), never by a constant "
                                   "or by the index of a fixed Direction")
    n = 0
    for b in facts.bodies:
        if not b.file.startswith("src/graph_impl") or b.kind not in ("AssocFn", "Fn") or b.npath in DIR_PARAM_SKIP:
            continue
        acc = []
        for i, j, st in b.stmts():
            pls = [st["lhs"]]
            rv = st["rv"]
            if rv["k"] in ("ref", "rawptr", "discr"):
                pls.append(rv["pl"])
            for o_ in rv.get("o", []):
                q = op_place(o_)
                if q:
                    pls.append(q)
            for pl in pls:
                fs = pl["p"]
                for k_, x in enumerate(fs):
                    prev = fs[k_ - 1] if k_ > 0 else None
                    if not (isinstance(prev, dict) and prev.get("n") in ("next", "node") and prev.get("a", "").startswith("graph_impl")):
                        continue
                    if isinstance(x, dict) and "cix" in x:
                        acc.append((st["line"], "const", "constant %d" % x["cix"]))
                    elif isinstance(x, dict) and "ix" in x:
                        e = b.local_expr(x["ix"], 10)
                        ks = _dir_index_calls(e)
                        if "var" in ks and "const" not in ks:
                            acc.append((st["line"], "k", ""))
                        elif ks:
                            acc.append((st["line"], "const", "the index of a fixed Direction"))
                        elif isinstance(e, tuple) and e[0] == "const":
                            acc.append((st["line"], "const", "constant %s" % e[1]))
                        else:
                            acc.append((st["line"], "other", ""))
        if not any(a[1] == "k" for a in acc):
            continue
        n += 1
        bad = [a for a in acc if a[1] == "const"]
        if bad:
            r.bad(Violation("DIRIDX-PARAM", b.npath, "k-index", b.file, bad[0][0],
                            "a direction array is indexed by %s in a body that is parametrised by a direction (other accesses use k = dir.index()): "
                            "for one of the two directions the wrong list is consulted (e.g. externals(Incoming) on an undirected graph tests the "
                            "incoming list twice and never the outgoing one)" % bad[0][2]))
        else:
            r.ok(b.npath, "k-index", "%d direction-array access(es), all derived from the body's own direction" % len(acc))
    r.floor = 8
    r.floor_what = "direction-parametrised bodies"
    return r


# ------------------------------------------------------------------------------------------------ C06
def filter_flag(facts):
    o = Obl("FLOW-FILTERFLAG", "NodeFiltered: the `include_source` flag of every per-node iterator (neighbors, neighbors_directed, edges, edges_directed) is "
                               "exactly FilterNode::include_node(filter, <the queried node>) - not combined with the direction or anything else; whole-graph "
                               "iterators (node_identifiers, node_references) set it to true")
    n = 0
    for b in facts.bodies:
        if b.file != "src/visit/filter.rs" or b.kind not in ("AssocFn", "Fn"):
            continue
        for i, j, st in b.stmts():
            rv = st["rv"]
            if rv["k"] != "agg" or rv.get("ak") != "adt":
                continue
            adt = facts.adts.get(rv["name"])
            if not adt:
                continue
            fields = [f["name"] for f in adt["variants"][0]["fields"]]
            if "include_source" not in fields:
                continue
            n += 1
            e = strip_casts(b.expr(rv["o"][fields.index("include_source")], 8))
            if ("field", "include_source") in leaves(e):
                n -= 1
                continue        # a copy of an existing iterator (derived Clone)
            if b.argc >= 2:
                ok = False
                if isinstance(e, tuple) and e[0] == "call" and last_seg(e[1]["path"]) == "include_node" and len(e[2]) >= 2:
                    ok = ("arg", 2) in leaves(e[2][1])
                o.check(b, "include_source", st["line"], ok, "include_source = filter.include_node(queried node)",
                        "include_source is not exactly include_node(<queried node>): a query on a node that the filter excludes (with some direction) "
                        "yields neighbours / edges although the node is not part of the filtered graph")
            else:
                ok = isinstance(e, tuple) and e[0] == "const" and e[1] in ("true", "1")
                o.check(b, "include_source", st["line"], ok, "whole-graph iterator: include_source = true",
                        "a whole-graph iterator of NodeFiltered does not set include_source to true")
    o.r.floor = 6
    return o.r


# ------------------------------------------------------------------------------------------------ C03
def graphmap_incoming_mirror(facts):
    o = Obl("GUARD-GMMIRROR", "GraphMap (every method, not only add_edge): an adjacency entry (x, CompactDirection::Incoming) is pushed only under "
                              "a != b - a self-loop is stored as ONE Outgoing entry, which is what neighbors()/edges()/remove_edge rely on")
    n = 0
    for root in facts.bodies:
        if root.file != "src/graphmap.rs" or root.kind not in ("AssocFn", "Fn"):
            continue
        for b in facts.with_closures(root):
            for i, t in b.calls():
                if last_seg(t["f"]["path"]) != "push" or len(t["args"]) < 2 or "Vec" not in norm_path(t["f"]["path"]):
                    continue
                e = b.expr(t["args"][1], 5)
                if not (isinstance(e, tuple) and e[0] == "agg" and len(e[3]) == 2):
                    continue
                d = e[3][1]
                nm = d[2] if isinstance(d, tuple) and len(d) > 2 else str(d)
                if str(nm) != "Incoming":
                    continue
                n += 1
                ok = any(isinstance(a, tuple) and a[0] == "bin" and a[1] == "Ne" and truth is True for (a, truth, src) in dom_atoms(b, i))
                o.check(b, "incoming-push#%d" % n, t["line"], ok, "Incoming mirror pushed only under a != b",
                        "an (x, Incoming) adjacency entry is pushed without the a != b test: a self-loop gets two adjacency entries, is listed "
                        "twice by neighbors()/edges() and survives remove_edge as a dangling neighbour")
    o.r.floor = 1
    return o.r


# ------------------------------------------------------------------------------------------------ C17 / C03
def nodes_before_edges(facts):
    o = Obl("FLOW-NODEFIRST", "GraphMap::from_graph (the back end of Deserialize for GraphMap) inserts every node, in the source graph's node order, before it "
                              "inserts any edge: no node insertion is reachable from an edge insertion, so node indices (IndexMap positions) are the "
                              "source graph's node indices")
    for b in o.need_fn(facts, "graphmap::GraphMap::from_graph"):
        def is_nodes(t):
            return callee_name(t["f"]).endswith("GraphMap::add_node")

        def is_edges(t):
            cn = callee_name(t["f"])
            if cn.endswith("GraphMap::add_edge") or cn.endswith("GraphMap::update_edge"):
                return True
            if t["f"].get("crate") == "indexmap" and last_seg(t["f"]["path"]) in ("insert", "insert_full", "entry") and t["args"]:
                return bool({("field", "edges"), ("field", "nodes")} & leaves(b.expr(t["args"][0], 8)))
            return False
        A = [i for i, t in b.calls() if is_nodes(t)]
        E = [i for i, t in b.calls() if is_edges(t)]
        o.check(b, "has-both", b.line, bool(A) and bool(E), "node insertions and edge insertions found", "add_node / add_edge calls not found in from_graph")
        if A and E:
            late = [a for a in A if any(a in reach(b, e) for e in E)]
            o.check(b, "nodes-first", b.line, not late, "no add_node is reachable from an edge insertion",
                    "a node insertion is reachable from an edge insertion: add_edge creates missing endpoints in edge order, so after a serde round "
                    "trip the nodes of a GraphMap whose node order differs from its edge order (explicit add_node, removals, undirected b<a) are permuted")
            srcs = [i for i, t in b.calls() if last_seg(t["f"]["path"]) in ("raw_nodes", "node_references", "node_weights", "node_indices")]
            o.check(b, "node-order", b.line, any(any(a in reach(b, s) for a in A) for s in srcs), "nodes are taken in the source graph's node order",
                    "the node insertions are not fed from the source graph's node sequence")
    o.r.floor = 3
    return o.r


# ------------------------------------------------------------------------------------------------ C11
class SignWalk(Walk):
    """abstract walk of a float function over operand signs: comparisons against Default::default() are decided by the sign assignment, every
    other float comparison is a free oracle bit"""

    def __init__(self, facts, b, signs, bits):
        Walk.__init__(self, facts, b, self._oracle, {1: ("sym", "A"), 2: ("sym", "B")})
        self.signs = signs
        self.bits = list(bits)
        self.used = 0

    def _oracle(self, w, f, args, t):
        np_ = norm_path(f["path"])
        if np_.endswith("Default::default"):
            return ("zero",)
        if re.match(r"core::f(32|64)::", np_) or np_.startswith(("core::ops::Add::", "core::ops::Sub::", "core::ops::Neg::")):
            return ("opaque", last_seg(np_))     # a pure float function of its operands: magnitude unknown
        raise Unknown("call %s" % np_)

    def rvalue(self, rv):
        if rv["k"] == "bin" and rv["op"] in ("Gt", "Lt", "Ge", "Le", "Eq", "Ne"):
            a, c = self.operand(rv["o"][0]), self.operand(rv["o"][1])
            op = rv["op"]
            if isinstance(c, tuple) and c == ("zero",) and isinstance(a, tuple) and a[0] == "sym":
                s = self.signs[a[1]]
                return {"Gt": s > 0, "Lt": s < 0, "Ge": s >= 0, "Le": s <= 0, "Eq": s == 0, "Ne": s != 0}[op]
            if isinstance(a, tuple) and a == ("zero",) and isinstance(c, tuple) and c[0] == "sym":
                s = -self.signs[c[1]]
                return {"Gt": s > 0, "Lt": s < 0, "Ge": s >= 0, "Le": s <= 0, "Eq": s == 0, "Ne": s != 0}[op]
            if isinstance(a, (bool, int)) and isinstance(c, (bool, int)):
                return Walk.rvalue(self, rv)
            if self.used >= len(self.bits):
                raise Unknown("more than %d free comparisons" % len(self.bits))
            v = self.bits[self.used]
            self.used += 1
            return v
        return Walk.rvalue(self, rv)


def float_overflow_table(facts):
    r = RuleResult("TABLE-OVERFLOW", "BoundedMeasure::overflowing_add for f32/f64, walked over the signs of its operands with every magnitude comparison "
                                     "left free: operands of opposite sign (or a zero operand) never report an overflow - the sum of two finite floats of "
                                     "opposite sign is always representable")
    import itertools
    bs = [b for b in facts.bodies if b.kind == "AssocFn" and b.name == "overflowing_add" and (b.impl_trait or "").endswith("BoundedMeasure")
          and (b.impl_selfhead in ("f32", "f64") or (b.impl_self or "") in ("f32", "f64"))]
    if not bs:
        r.bad(Violation("TABLE-OVERFLOW", "algo::BoundedMeasure::overflowing_add", "anchor-missing", "src/algo/mod.rs", 0,
                        "impl BoundedMeasure for f32/f64 not found - fail closed"))
        return r
    for b in bs:
        site = "sign-table"
        bad = None
        silent = None
        NB = 4
        try:
            for (sa, sb) in ((1, -1), (-1, 1), (0, 1), (1, 0), (0, -1), (-1, 0), (0, 0)):
                for bits in itertools.product((False, True), repeat=NB):
                    w = SignWalk(facts, b, {"A": sa, "B": sb}, bits)
                    v = w.run()
                    flag = v[3][1] if isinstance(v, tuple) and v[0] == "agg" and len(v[3]) == 2 else None
                    if flag is True:
                        bad = (sa, sb)
                        break
                    if flag is not False:
                        raise Unknown("flag %r" % (flag,))
                if bad:
                    break
        except Unknown as e:
            silent = str(e)
        if silent:
            r.silent += 1
            r.ok(b.npath, site, "unrecognised construct (%s): silent" % silent)
        elif bad:
            sg = {1: "positive", -1: "negative", 0: "zero"}
            r.bad(Violation("TABLE-OVERFLOW", b.npath, site, b.file, b.line,
                            "overflowing_add can report an overflow for a %s and a %s operand: spfa / floyd_warshall then skip a relaxation whose sum is "
                            "representable (large positive distance + large negative weight) - wrong distances and missed negative cycles on float "
                            "weights of large magnitude and mixed sign" % (sg[bad[0]], sg[bad[1]])))
        else:
            r.ok(b.npath, site, "no overflow reported for operands of opposite sign or a zero operand (7 sign pairs x 2^%d free comparisons)" % NB)
    r.floor = 2
    return r


# ------------------------------------------------------------------------------------------------ C05 (search contract)
ORD = {"Less": ("enum", 255, "Less"), "Equal": ("enum", 0, "Equal"), "Greater": ("enum", 1, "Greater")}


def _search_oracle(scen, elems):
    """scen: how every inspected element compares with the target ('Less' | 'Equal' | 'Greater'); the linear iterator yields `elems` elements"""
    state = {"n": 0}

    def is_target(v):
        v = deref(v)
        return isinstance(v, tuple) and v == ("sym", "B")

    def oracle(w, f, args, t):
        np_ = norm_path(f["path"])
        nm = last_seg(np_)
        if np_.startswith(("core::cmp::Ord::", "core::cmp::PartialOrd::", "core::cmp::PartialEq::")) and len(args) == 2:
            ta, tb = is_target(args[0]), is_target(args[1])
            if ta == tb:
                raise Unknown("comparison that does not involve the target exactly once")
            rel = scen if tb else {"Less": "Greater", "Greater": "Less", "Equal": "Equal"}[scen]      # ordering of args[0] relative to args[1]
            w.trace.append(("cmp", nm, rel))
            if nm == "cmp":
                return ORD[rel]
            if nm == "partial_cmp":
                return ("agg", "core::option::Option", "Some", [ORD[rel]], 1)
            return {"lt": rel == "Less", "le": rel in ("Less", "Equal"), "gt": rel == "Greater", "ge": rel in ("Greater", "Equal"),
                    "eq": rel == "Equal", "ne": rel != "Equal"}[nm]
        if nm == "binary_search" or nm == "binary_search_by" or nm == "binary_search_by_key":
            w.trace.append(("binary_search",))
            if scen == "Equal":
                return ("agg", "core::result::Result", "Ok", [("opaque", "pos")], 0)
            return ("agg", "core::result::Result", "Err", [("opaque", "pos")], 1)
        if nm == "next" and np_.startswith("core::iter::"):
            state["n"] += 1
            if state["n"] <= elems:
                return ("agg", "core::option::Option", "Some", [("agg", "tuple", "", [("opaque", "i"), ("ref", ("opaque", "elt"))], None)], 1)
            return ("enum", 0, "None")
        if f.get("crate") == "petgraph" and nm in ("neighbors_of",):
            return ("agg", "tuple", "", [("opaque", "index"), ("ref", ("opaque", "row"))], None)
        if nm in ("len", "iter", "enumerate", "into_iter", "index", "get_unchecked", "last", "first", "deref", "as_slice"):
            return ("opaque", nm)
        raise Unknown("call %s" % np_)
    return oracle


def search_contract(facts):
    r = RuleResult("TABLE-SEARCH", "Csr::find_edge_pos (the search behind add_edge / contains_edge / find_edge), walked over the abstract outcomes of its comparisons: "
                                   "if the row elements it inspects compare Equal to the target it returns Ok (present); if they all compare Less, or Greater, it "
                                   "returns Err (absent) - on both the linear and the binary-search path, whatever the row length")
    bs = facts.find("csr::Csr::find_edge_pos")
    if not bs:
        r.bad(Violation("TABLE-SEARCH", "csr::Csr::find_edge_pos", "anchor-missing", "src/csr.rs", 0, "Csr::find_edge_pos not found - fail closed"))
        return r
    import itertools
    b = bs[0]
    NB = 3
    want = {"Equal": "Ok", "Less": "Err", "Greater": "Err"}
    bad = None
    silent = None
    rows = 0
    try:
        for scen in ("Equal", "Less", "Greater"):
            for elems in (1, 2):
                for bits in itertools.product((False, True), repeat=NB):
                    w = FreeWalk(facts, b, _search_oracle(scen, elems), {1: ("ref", ("opaque", "SELF")), 2: ("opaque", "A"), 3: ("sym", "B")}, bits)
                    v = w.run()
                    got = v[2] if isinstance(v, tuple) and v[0] == "agg" and v[1] == "core::result::Result" else None
                    if got is None:
                        raise Unknown("result %r" % (v,))
                    if not any(x[0] in ("cmp", "binary_search") for x in w.trace):
                        # a path that inspects no element at all (e.g. an empty-row shortcut): only `absent` is acceptable
                        if got != "Err":
                            bad = (scen, got, "without inspecting any element")
                            break
                        continue
                    rows += 1
                    if got != want[scen]:
                        bad = (scen, got, "after %s" % [x for x in w.trace if x[0] in ("cmp", "binary_search")][:3])
                        break
                if bad:
                    break
            if bad:
                break
    except Unknown as e:
        silent = str(e)
    if silent:
        r.silent += 1
        r.ok(b.npath, "search-table", "unrecognised construct (%s): silent" % silent)
    elif bad:
        r.bad(Violation("TABLE-SEARCH", b.npath, "search-table", b.file, b.line,
                        "find_edge_pos returns %s when the inspected row elements compare %s to the target (%s): an edge that is stored is reported "
                        "absent (contains_edge false, add_edge inserts a duplicate) or an absent one present - e.g. a non-strict comparison in a "
                        "fast path that skips the search for the row's largest element" % (bad[1], bad[0], bad[2])))
    else:
        r.ok(b.npath, "search-table", "Ok exactly on Equal, Err on Less/Greater (%d walked rows: 3 orderings x 1-2 elements x 2^%d free comparisons)" % (rows, NB))
    r.floor = 1
    return r


# ------------------------------------------------------------------------------------------------ C04 / C06 (matrix edge tuples)
def _matrix_oracle(facts, dirs, trace):
    def as_enum(v):
        v = deref(v)
        if isinstance(v, tuple) and v[0] == "enum":
            return v
        if isinstance(v, tuple) and v[0] == "opaque" and isinstance(v[1], str):
            for i, d in enumerate(dirs):
                if v[1].endswith("::" + d):
                    return ("enum", i, d)
        return None

    def oracle(w, f, args, t):
        np_ = norm_path(f["path"])
        nm = last_seg(np_)
        res = f.get("resolved", "")
        if nm == "to_linearized_matrix_position":
            trace.append(("cell", args[0], args[1]))
            return ("opaque", "p")
        if nm == "as_ref" and len(args) == 1:
            return ("agg", "core::option::Option", "Some", [("ref", ("opaque", "cell"))], 1)
        if nm == "new" and "NodeIndex" in np_:
            return ("agg", "NodeIndex", "", [args[0]], None)
        if nm == "next" and "matrix_graph::Edges" in res + f.get("self", ""):
            eb = facts.find("«matrix_graph::Edges as core::iter::Iterator»::next")
            if not eb:
                raise Unknown("Edges::next not found")
            sub = FreeWalk(facts, eb[0], oracle, {1: args[0]}, w.bits[w.used:])
            v = sub.run()
            w.used += sub.used
            return v
        if nm in ("eq", "ne") and len(args) == 2:
            a, c = as_enum(args[0]), as_enum(args[1])
            if a is None or c is None:
                raise Unknown("comparison of %r and %r" % (args[0], args[1]))
            return (a[1] == c[1]) == (nm == "eq")
        if nm in ("map",) and np_.startswith("core::option::Option"):
            opt, clo = args[0], args[1]
            if isinstance(opt, tuple) and opt[0] == "enum":
                return opt          # None
            if not (isinstance(opt, tuple) and opt[0] == "agg" and opt[2] == "Some"):
                raise Unknown("map on %r" % (opt,))
            if not (isinstance(clo, tuple) and clo[0] == "agg" and str(clo[1]).startswith("closure:")):
                raise Unknown("map with %r" % (clo,))
            cb = facts.body(clo[1][len("closure:"):])
            if cb is None:
                raise Unknown("closure body")
            sub = FreeWalk(facts, cb, oracle, {1: clo, 2: opt[3][0]}, w.bits[w.used:])
            v = sub.run()
            w.used += sub.used
            return ("agg", "core::option::Option", "Some", [v], 1)
        raise Unknown("call %s" % np_)
    return oracle


class _ClosureWalk(FreeWalk):
    pass


def _closure_agg_patch():
    # closures as values: keep the closure's name and its captured operands
    orig = Walk.rvalue

    def rvalue(self, rv):
        if rv["k"] == "agg" and rv.get("ak") == "closure":
            return ("agg", "closure:" + rv["name"], "", [self.operand(o) for o in rv["o"]], None)
        return orig(self, rv)
    if not getattr(Walk, "_closure_patched", False):
        Walk.rvalue = rvalue
        Walk._closure_patched = True


def matrix_edges_table(facts):
    import itertools
    _closure_agg_patch()
    r = RuleResult("TABLE-MATRIXEDGES", "MatrixGraph's per-node iterators, walked over both scan directions: Edges::next yields for the occupied cell it read at "
                                        "to_linearized_matrix_position(row, column) the tuple (row, column, w) - source = row, target = column, the orientation "
                                        "under which a directed edge is stored - and Neighbors::next (composed with it) yields the scanned coordinate (the row for a "
                                        "row scan = incoming neighbours, the column for a column scan)")
    eb = facts.find("«matrix_graph::Edges as core::iter::Iterator»::next")
    nb = facts.find("«matrix_graph::Neighbors as core::iter::Iterator»::next")
    ea = facts.adts.get("matrix_graph::Edges")
    da = facts.adts.get("matrix_graph::NeighborIterDirection")
    if not eb or not nb or not ea or not da:
        r.bad(Violation("TABLE-MATRIXEDGES", "matrix_graph::Edges::next", "anchor-missing", "src/matrix_graph.rs", 0,
                        "Edges::next / Neighbors::next / Edges / NeighborIterDirection not found - fail closed"))
        return r
    fields = [f["name"] for f in ea["variants"][0]["fields"]]
    dirs = [v["name"] for v in da["variants"]]
    ROW, COL = ("sym", "ROW"), ("sym", "COL")

    def self_val(di):
        ops = []
        for fn in fields:
            ops.append({"iter_direction": ("enum", di, dirs[di]), "row": ROW, "column": COL}.get(fn, ("opaque", fn)))
        return ("agg", "matrix_graph::Edges", "Edges", ops, 0)
    NB = 3
    for di, dname in enumerate(dirs):
        scanned = ROW if dname == "Rows" else COL
        # --- Edges::next
        res = None
        try:
            for bits in itertools.product((False, True), repeat=NB):
                trace = []
                w = FreeWalk(facts, eb[0], _matrix_oracle(facts, dirs, trace), {1: ("ref", self_val(di))}, bits)
                w.limit = 300
                v = w.run(300)
                if isinstance(v, tuple) and v[0] == "agg" and v[2] == "Some":
                    tup = v[3][0]
                    a, c = tup[3][0], tup[3][1]
                    a = a[3][0] if isinstance(a, tuple) and a[0] == "agg" else a
                    c = c[3][0] if isinstance(c, tuple) and c[0] == "agg" else c
                    cells = [x for x in trace if x[0] == "cell"]
                    res = (a, c, cells[-1][1:] if cells else None)
                    break
        except Unknown as e:
            r.silent += 1
            r.ok(eb[0].npath, "tuple-%s" % dname, "unrecognised construct (%s): silent" % e)
            res = "silent"
        if res == "silent":
            pass
        elif res is None:
            r.bad(Violation("TABLE-MATRIXEDGES", eb[0].npath, "tuple-%s" % dname, eb[0].file, eb[0].line, "no walk of Edges::next yields an element for a %s scan" % dname))
        else:
            a, c, cell = res
            ok = (a, c) == (ROW, COL) and (cell is None or tuple(cell) == (ROW, COL))
            if ok:
                r.ok(eb[0].npath, "tuple-%s" % dname, "%s scan yields (row, column) of the cell read" % dname)
            else:
                nm = {ROW: "row", COL: "column"}
                r.bad(Violation("TABLE-MATRIXEDGES", eb[0].npath, "tuple-%s" % dname, eb[0].file, eb[0].line,
                                "on a %s scan Edges::next yields (%s, %s) for the cell (row, column): the edge reference names the edge column -> row, which "
                                "is not the stored edge row -> column - edges_directed(a, Incoming) on a directed MatrixGraph (and Reversed(&g).edges(a)) "
                                "reports every incoming edge r -> a as a -> r" % (dname, nm.get(a, a), nm.get(c, c))))
        # --- Neighbors::next composed with Edges::next
        res = None
        try:
            for bits in itertools.product((False, True), repeat=NB):
                trace = []
                nself = ("agg", "matrix_graph::Neighbors", "Neighbors", [self_val(di)], 0)
                w = FreeWalk(facts, nb[0], _matrix_oracle(facts, dirs, trace), {1: ("ref", nself)}, bits)
                v = w.run(400)
                if isinstance(v, tuple) and v[0] == "agg" and v[2] == "Some":
                    x = v[3][0]
                    res = x[3][0] if isinstance(x, tuple) and x[0] == "agg" else x
                    break
        except Unknown as e:
            r.silent += 1
            r.ok(nb[0].npath, "neighbor-%s" % dname, "unrecognised construct (%s): silent" % e)
            res = "silent"
        if res == "silent":
            pass
        elif res is None:
            r.bad(Violation("TABLE-MATRIXEDGES", nb[0].npath, "neighbor-%s" % dname, nb[0].file, nb[0].line, "no walk of Neighbors::next yields an element for a %s scan" % dname))
        elif res == scanned:
            r.ok(nb[0].npath, "neighbor-%s" % dname, "%s scan yields the scanned coordinate" % dname)
        else:
            r.bad(Violation("TABLE-MATRIXEDGES", nb[0].npath, "neighbor-%s" % dname, nb[0].file, nb[0].line,
                            "on a %s scan Neighbors::next yields the fixed coordinate (the queried node itself) instead of the scanned one: "
                            "neighbors_directed(a, %s) returns a for every neighbour" % (dname, "Incoming" if dname == "Rows" else "Outgoing")))
    r.floor = 4
    return r
