"""DELEG - adaptor/trait delegation constraints and negative impl facts (DESIGN 3.6)."""
import re

from .core import op_place, op_local, callee_name, last_seg, norm_path, strip_ref
from .report import RuleResult, Violation

ADAPTORS = {
    # selfhead -> class
    "adt:visit::reversed::Reversed": "REVERSING",
    "adt:visit::undirected_adaptor::UndirectedAdaptor": "SYMMETRISING",
    "adt:visit::filter::NodeFiltered": "NODE_SUBSET",
    "adt:visit::filter::EdgeFiltered": "EDGE_SUBSET",
    "adt:graph_impl::Frozen": "IDENTITY",
    "adt:graph_impl::frozen::Frozen": "IDENTITY",
    "adt:acyclic::Acyclic": "IDENTITY",
    "ref:param:G": "IDENTITY",
    "refmut:param:G": "IDENTITY",
}

TRIVIAL_CALLS = ("deref", "deref_mut", "clone", "borrow", "borrow_mut", "as_ref", "as_mut", "inner", "into")


def verbatim(b):
    """True if the method body is a plain forward: exactly one non-trivial call, to the same trait method,
    with this method's own parameters in order, whose result is returned unchanged."""
    calls = [(i, t) for i, t in b.calls() if last_seg(t["f"]["path"]) not in TRIVIAL_CALLS]
    if len(calls) != 1:
        return False
    i, t = calls[0]
    f = t["f"]
    if last_seg(f["path"]) != b.name or f.get("trait") != b.impl_trait:
        return False
    # result returned unchanged: destination is the return place, or moved to it without wrapping
    d = t["dest"]
    if d["l"] != 0 or d["p"]:
        moved = False
        for _, _, st in b.stmts():
            if st["lhs"]["l"] == 0 and not st["lhs"]["p"] and st["rv"]["k"] == "use" and op_local(st["rv"]["o"][0]) == d["l"] \
                    and not op_place(st["rv"]["o"][0])["p"]:
                moved = True
        if not moved:
            return False
    # parameters in order (skipping self)
    order = []
    for a in t["args"][1:]:
        e = b.expr(a, 4)
        if e[0] == "ref" and isinstance(e[2], tuple) and e[2][0] == "place" and e[2][2] == ("*",) and e[2][1][0] == "arg":
            e = e[2][1]     # reborrow of a reference parameter
        if e[0] == "arg":
            order.append(e[1])
        elif e[0] == "const":
            order.append(None)
        else:
            return False
    want = list(range(2, 2 + len(order)))
    return order == want


def method_sensitivity(facts, trait, name):
    """classification of a trait method from its declared signature"""
    t = facts.traits.get(trait)
    out = set()
    if not t:
        return out
    for m in t["methods"]:
        if m["name"] != name:
            continue
        nid = sum(1 for x in m["inputs"] if x.endswith("::NodeId") or x.endswith("NodeId>"))
        if nid >= 2:
            out.add("PAIRQ")        # ordered pair of nodes
        if any(x.endswith("Direction") for x in m["inputs"]):
            out.add("DIR")
        o = m["output"]
        mm = re.search(r"::(\w+)$", o)
        if mm and re.search(r"Neighbors|Edges|EdgeReferences|EdgesDirected|NeighborsDirected", mm.group(1)):
            out.add("ADJ" if nid >= 1 else "EDGEENUM")
        if mm and re.search(r"NodeIdentifiers|NodeReferences", mm.group(1)):
            out.add("NODEENUM")
    if trait in ("visit::NodeCount", "visit::NodeCompactIndexable"):
        out.add("NODECARD")
    if trait == "visit::EdgeCount":
        out.add("EDGECARD")
    if trait == "visit::GetAdjacencyMatrix" and name == "adjacency_matrix":
        out.add("MATRIX")
    if trait == "visit::GraphProp" and name == "is_directed":
        out.add("DIRECTEDNESS")
    return out


FORBIDDEN = {
    "REVERSING": {"ADJ", "PAIRQ", "DIR", "EDGEENUM"},
    "SYMMETRISING": {"ADJ", "DIR", "PAIRQ", "DIRECTEDNESS"},
    "NODE_SUBSET": {"NODECARD", "EDGECARD", "NODEENUM", "EDGEENUM", "ADJ", "PAIRQ", "MATRIX"},
    "EDGE_SUBSET": {"EDGECARD", "EDGEENUM", "ADJ", "PAIRQ", "MATRIX"},
    "IDENTITY": set(),
}
FORBIDDEN_TRAITS = {   # marker traits an adaptor class must not implement at all
    "NODE_SUBSET": ("visit::NodeCompactIndexable", "visit::NodeCount"),
    "EDGE_SUBSET": ("visit::EdgeCount",),
}
NEGATIVE = [("visit::NodeCompactIndexable", "adt:graph_impl::stable_graph::StableGraph"),
            ("visit::NodeCompactIndexable", "adt:matrix_graph::MatrixGraph"),
            ("visit::NodeCompactIndexable", "adt:visit::filter::NodeFiltered"),
            ("visit::NodeCount", "adt:visit::filter::NodeFiltered"),
            ("visit::EdgeCount", "adt:visit::filter::NodeFiltered"),
            ("visit::EdgeCount", "adt:visit::filter::EdgeFiltered"),
            ("core::ops::DerefMut", "adt:graph_impl::Frozen"),
            ("core::ops::DerefMut", "adt:acyclic::Acyclic")]


def head_of(b):
    sh = b.impl_selfhead
    if sh.startswith("ref:param:") or sh.startswith("refmut:param:"):
        return sh.split(":")[0] + ":param:G"
    return sh


def run(facts):
    r = RuleResult("DELEG", "an adaptor never provides a trait method that its transformation changes (orientation for Reversed, "
                            "edge/node sets and counts for filters, symmetry for UndirectedAdaptor) by forwarding the wrapped graph's "
                            "answer verbatim; sparse-index types and subset adaptors have no NodeCompactIndexable / count impls")
    nimpl = 0
    for b in facts.bodies:
        if b.kind != "AssocFn" or not b.impl_trait:
            continue
        if not (b.impl_trait.startswith("visit::") or b.impl_trait.startswith("data::")):
            continue
        klass = ADAPTORS.get(head_of(b))
        if klass is None:
            continue
        nimpl += 1
        sens = method_sensitivity(facts, b.impl_trait, b.name)
        vb = verbatim(b)
        bad = sens & FORBIDDEN[klass]
        site = "%s::%s" % (b.impl_trait, b.name)
        fn = "impl %s for %s" % (b.impl_trait, re.sub(r"<.*", "", strip_ref(b.impl_self)) if not b.impl_self.startswith("&") else "&G")
        if vb and bad:
            v = Violation("DELEG", fn, site, b.file, b.line,
                          "%s adaptor forwards %s verbatim to the wrapped graph, but this method is %s-sensitive: the adaptor "
                          "would answer for the untransformed graph" % (klass, site, "/".join(sorted(bad))), {"class": klass})
            r.bad(v)
        else:
            r.ok(fn, site, "%s; %s" % ("verbatim forward (allowed: not sensitive for %s)" % klass if vb else "hand-written", "sensitivity=%s" % sorted(sens)))
    for (tr, sh) in NEGATIVE:
        hit = [i for i in facts.impls if i["trait"] == tr and i["selfhead"] == sh]
        fn = "impl %s for %s" % (tr, sh[4:])
        if hit:
            v = Violation("DELEG", fn, "negative-impl", hit[0]["file"], hit[0]["line"],
                          "%s must not implement %s (its index space has holes / it shows a subset / it must not hand out &mut)" % (sh[4:], tr), {})
            r.bad(v)
        else:
            r.ok(fn, "negative-impl", "absent from the impl table")
    r.floor = 60
    r.floor_what = "adaptor trait methods"
    r.notes.append("adaptor trait methods classified: %d" % nimpl)
    return r


MULTIGRAPH_TYPES = ("adt:graph_impl::Graph", "adt:graph_impl::stable_graph::StableGraph", "adt:adj::List")


def build_overrides(facts):
    """Build::add_edge has a default body (= update_edge) that merges parallel edges: multigraph types must override it"""
    r = RuleResult("DELEG-BUILD", "types that keep parallel edges (Graph, StableGraph, adj::List) override Build::add_edge with their own add_edge: the "
                                  "trait's default body is update_edge, which overwrites an existing a->b edge instead of adding a second one")
    t = facts.traits.get("data::Build")
    if not t or not any(m["name"] == "add_edge" for m in t["methods"]):
        r.bad(Violation("DELEG-BUILD", "data::Build", "anchor-missing", "src/data.rs", 0, "trait data::Build / add_edge not found - fail closed"))
        return r
    default = next(m for m in t["methods"] if m["name"] == "add_edge")["default"]
    for sh in MULTIGRAPH_TYPES:
        impls = [i for i in facts.impls if i["trait"] == "data::Build" and i["selfhead"] == sh]
        fn = "impl data::Build for %s" % sh[4:]
        if not impls:
            r.ok(fn, "add_edge", "no Build impl for this type in this configuration")
            continue
        bodies = [b for b in facts.bodies if b.kind == "AssocFn" and b.impl_trait == "data::Build" and b.impl_selfhead == sh and b.name == "add_edge"]
        if not bodies:
            if default:
                r.bad(Violation("DELEG-BUILD", fn, "add_edge", impls[0]["file"], impls[0]["line"],
                                "%s inherits Build::add_edge's default body (update_edge): adding a parallel edge through the Build trait "
                                "(generic code, from_elements) overwrites the existing edge instead" % sh[4:]))
            else:
                r.ok(fn, "add_edge", "trait has no default body")
            continue
        b = bodies[0]
        callees = [last_seg(callee_name(t_["f"])) for _, t_ in b.calls()]
        if any(c in ("add_edge", "try_add_edge") for c in callees) and "update_edge" not in callees:
            r.ok(fn, "add_edge", "overridden, forwards to the type's own add_edge")
        else:
            r.bad(Violation("DELEG-BUILD", fn, "add_edge", b.file, b.line,
                            "Build::add_edge of a multigraph type does not forward to its own add_edge (calls: %s)" % callees))
    r.floor = 2
    return r
