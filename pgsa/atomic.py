"""ATOMIC - failure atomicity of fallible mutators (DESIGN 3.2): flow-sensitive MIR dataflow.

Rule: on every path to a *failure exit* of a `&mut self` method of a graph type, no store through
`self` and no mutating call on a `&mut` derived from `self` has happened ("clean").
"""
import re

from .core import (op_place, op_local, callee_name, last_seg, norm_path, strip_ref, is_mut_ref_ty,
                   place_str, walk_expr)
from .report import RuleResult, Violation

TARGET_ADTS = ("graph_impl::Graph", "graph_impl::stable_graph::StableGraph", "matrix_graph::MatrixGraph", "csr::Csr",
               "adj::List", "graphmap::GraphMap", "unionfind::UnionFind", "acyclic::Acyclic", "acyclic::order_map::OrderMap")

# Option/bool-returning methods whose None/false is documented as "absent => unchanged"
NONE_MEANS_UNCHANGED = ("remove_node", "remove_edge", "try_remove_edge", "try_find_mut", "add_edge_", "remove_single_edge")
# `Build::add_edge`: None = rejected
BUILD_ADD_EDGE = "data::Build"

NONMUT_EXT = {"get_mut", "iter_mut", "as_mut", "index_mut", "len", "get", "deref_mut", "as_mut_slice", "as_mut_ptr",
              "last_mut", "first_mut", "by_ref", "into_iter", "iter", "as_ref", "is_none", "is_some", "contains_key",
              "contains", "capacity", "get_unchecked_mut", "get_unchecked", "deref", "borrow", "is_empty", "get_index_of",
              "get_full", "get_index", "get_index_mut", "values_mut", "keys", "get_full_mut", "split_at_mut", "first", "last",
              "as_slice", "as_mut_slices", "index", "add", "offset", "binary_search", "binary_search_by", "get_many_mut",
              "is_visited", "count_ones", "max", "min", "unwrap", "expect", "ok_or", "map", "clone", "eq", "ne", "entry"}
MUT_EXT = {"push", "insert", "swap_remove", "shift_remove", "remove", "clear", "truncate", "resize", "resize_with", "take",
           "replace", "swap", "extend", "pop", "append", "drain", "retain", "sort", "reverse", "or_insert_with", "or_default",
           "or_insert", "put", "set", "grow", "toggle", "shrink_to_fit", "insert_full", "push_back", "push_front",
           "pop_front", "pop_back", "swap_remove_full", "extend_from_slice", "sort_by", "sort_unstable", "dedup",
           "set_range", "insert_range", "visit", "unvisit", "swap_nonoverlapping", "fill", "rotate_left", "rotate_right",
           "copy_from_slice", "clone_from", "remove_entry", "shift_remove_full", "split_off", "grow_and_insert", "write"}
# capacity-only growth: unobservable
CAPACITY_ONLY = {"reserve", "reserve_exact", "try_reserve", "try_reserve_exact", "shrink_to"}
# crate-local: effect unobservable (idiom table, DESIGN 3.2) - normalised path -> reason
UNOBSERVABLE_LOCAL = {
    "matrix_graph::MatrixGraph::extend_capacity_for_edge": "matrix capacity growth only (cells keep their (row,col) meaning, nullness unchanged)",
    "matrix_graph::MatrixGraph::extend_capacity_for_node": "matrix capacity growth only",
    "unionfind::UnionFind::try_find_mut": "path compression: representative-preserving (C19 states compression changes no answer)",
    "unionfind::UnionFind::find_mut": "path compression: representative-preserving",
    "unionfind::UnionFind::find_mut_recursive": "path compression: representative-preserving",
}
# exits that are infeasible given an earlier identical check (idiom: infeasible second failure)
INFEASIBLE_EXITS = {
    # (function npath, callee npath, ordinal of the `?` on that callee)
    ("csr::Csr::try_add_edge", "csr::Csr::add_edge_", 2): "second add_edge_(b, a) cannot fail on bounds: the same predicate on the same pair already passed; "
                                                           "it returns Ok(false) only if (b,a) exists, which implies (a,b) existed (mirror invariant) and the first call already returned",
}


def const_is_false(o):
    return "const" in o and o.get("ty") == "bool" and o["const"] in ("0", "false")


# private helpers whose partial effect on failure is dropped with the value by their only callers
OUT_OF_SCOPE = {
    "graph_impl::Graph::link_edges": "private serde helper: called only on the graph under construction in from_deserialized, which "
                                     "drops it on Err (WIRE rule: every Ok exit is dominated by link_edges's Ok arm)",
    "graph_impl::stable_graph::StableGraph::link_edges": "private serde helper: same as Graph::link_edges",
}


def mut_ref_like(ty):
    return is_mut_ref_ty(ty) or ty.startswith("*mut") or "Pair<&" in ty and "mut" in ty or "IterMut" in ty or "RefMut" in ty \
        or ty.startswith("core::option::Option<&'{erased} mut") or "Entry<" in ty or ty.startswith("core::pin::Pin<&'{erased} mut")


def ref_like(ty):
    return ty.startswith("&") or ty.startswith("*") or "Pair<" in ty or "Iter" in ty or "RefMut" in ty or "Ref<" in ty \
        or ty.startswith("core::option::Option<&") or "Entry<" in ty or "Option<(&" in ty or ty.startswith("(&")


class Atomic:
    def __init__(self, facts):
        self.facts = facts
        self.mutsum = {}     # npath -> set of param indexes (1-based) mutated through
        self._prov = {}
        self._compute_summaries()

    # -- provenance: locals holding pointers derived from parameter `root_local`
    def prov(self, b, root_local=1):
        k = (b.path, root_local)
        if k in self._prov:
            return self._prov[k]
        prov = {root_local}
        ch = True
        while ch:
            ch = False
            for _, _, st in b.stmts():
                rv = st["rv"]
                lhs = st["lhs"]
                if lhs["p"] or lhs["l"] in prov:
                    continue
                src = None
                if rv["k"] in ("ref", "rawptr"):
                    pl = rv["pl"]
                    if pl["l"] in prov and (any(x == "*" for x in pl["p"])):
                        src = pl["l"]
                elif rv["k"] in ("use", "cast") and rv["o"]:
                    pl = op_place(rv["o"][0])
                    if pl is not None and pl["l"] in prov:
                        # copying a pointer (or a field of pointer type) out of a self-derived pointer
                        if not pl["p"] or ref_like(b.lty(lhs["l"])):
                            if ref_like(b.lty(lhs["l"])):
                                src = pl["l"]
                elif rv["k"] == "agg":
                    for o in rv["o"]:
                        pl = op_place(o)
                        if pl is not None and pl["l"] in prov and ref_like(b.lty(lhs["l"])):
                            src = pl["l"]
                if src is not None:
                    prov.add(lhs["l"])
                    ch = True
            for _, t in b.calls():
                dl = t["dest"]["l"]
                if dl in prov or dl == 0 or t["dest"]["p"]:
                    continue
                nm = last_seg(t["f"]["path"])
                if norm_path(t["f"]["path"]).startswith("core::cell::RefCell"):
                    continue   # interior mutability is outside ATOMIC (scratch-reset rule covers it)
                if any(op_local(a) in prov for a in t["args"]) and ref_like(b.lty(dl)):
                    prov.add(dl)
                    ch = True
        self._prov[k] = prov
        return prov

    def callee_mutates(self, b, t, prov):
        """None = not mutating, else description"""
        f = t["f"]
        margs = [i for i, a in enumerate(t["args"]) if op_local(a) in prov and mut_ref_like(b.lty(op_local(a)))]
        if not margs:
            return None
        p = f["path"]
        nm = last_seg(p)
        cn = callee_name(f)
        if f.get("crate") == "petgraph":
            if cn in UNOBSERVABLE_LOCAL:
                return None
            cands = self.facts.by_npath.get(cn)
            if cands:
                s = self.mutsum.get(cn)
                if s is None:
                    return "call %s (no summary: assumed mutating)" % cn
                if any((i + 1) in s for i in margs):
                    return "call %s (mutates through its &mut parameter)" % cn
                return None
            # unresolved trait method on a generic receiver taking &mut
            if f.get("trait", "").startswith("data::") or f.get("trait", "").startswith("visit::"):
                if nm in ("node_weight_mut", "edge_weight_mut"):
                    return None
                return "call %s (trait method on &mut receiver)" % norm_path(p)
            return "call %s" % cn
        np_ = norm_path(p)
        if np_.startswith("core::mem::"):
            return "call %s" % np_ if nm in ("take", "replace", "swap") else None
        if np_.startswith("core::ptr::"):
            return "call %s" % np_ if nm in ("write", "swap", "swap_nonoverlapping", "replace", "copy", "copy_nonoverlapping") else None
        if nm in CAPACITY_ONLY or nm in NONMUT_EXT:
            return None
        if nm in MUT_EXT:
            return "call %s" % np_
        if np_.startswith("core::ops::") and nm in ("add_assign", "sub_assign"):
            return "call %s" % np_
        return None

    def _compute_summaries(self):
        fns = [b for b in self.facts.bodies if b.kind in ("Fn", "AssocFn") and b.argc >= 1]
        for b in fns:
            self.mutsum[b.npath] = set()
        for _ in range(4):
            changed = False
            for b in fns:
                cur = self.mutsum[b.npath]
                for pi in range(1, b.argc + 1):
                    if pi in cur or not mut_ref_like(b.lty(pi)):
                        continue
                    if self._mutates_through(b, pi):
                        cur.add(pi)
                        changed = True
            if not changed:
                break

    def _mutates_through(self, b, pi):
        prov = self.prov(b, pi)
        for _, _, st in b.stmts():
            lhs = st["lhs"]
            if lhs["l"] in prov and any(x == "*" for x in lhs["p"]):
                return True
        for _, t in b.calls():
            if self.callee_mutates(b, t, prov):
                return True
        # closures capturing the pointer: conservatively mutating if any closure of this fn stores through a capture
        return False

    # -- failure exits
    def exits(self, b, klass):
        """yield (kind, blk, stmt_idx or None, line, feeding_call_blk or None, desc)"""
        for i, bl in enumerate(b.blocks):
            if bl["cleanup"] or i not in b.cfg()[2]:
                continue
            for j, st in enumerate(bl["st"]):
                lhs, rv = st["lhs"], st["rv"]
                if lhs["l"] != 0 or lhs["p"]:
                    continue
                if klass == "result":
                    if rv["k"] == "agg" and rv["name"] == "core::result::Result":
                        if rv["variant"] == "Err":
                            what = ".."
                            if rv["o"]:
                                e = b.expr(rv["o"][0], depth=3)
                                if e[0] == "agg":
                                    what = "%s::%s" % (last_seg(e[1]), e[2])
                                elif e[0] in ("arg", "local"):
                                    what = b.lname(e[1]) or ".."
                            yield ("Err", i, j, st["line"], None, "Err(%s)" % what)
                        elif rv["variant"] == "Ok" and b.lty(0).startswith("core::result::Result<bool") and rv["o"] and const_is_false(rv["o"][0]):
                            yield ("Ok(false)", i, j, st["line"], None, "Ok(false)")
                elif klass == "option":
                    if rv["k"] == "agg" and rv["name"] == "core::option::Option" and rv["variant"] == "None":
                        yield ("None", i, j, st["line"], None, "None")
                elif klass == "bool":
                    if rv["k"] == "use" and const_is_false(rv["o"][0]):
                        yield ("false", i, j, st["line"], None, "false")
            t = bl["term"]
            if t["k"] == "call" and "path" in t["f"] and t["dest"]["l"] == 0 and not t["dest"]["p"]:
                p = norm_path(t["f"]["path"])
                if p == "core::ops::FromResidual::from_residual":
                    feed = self._residual_source(b, t)
                    yield ("?", i, None, t["line"], feed, "`?` on %s" % (callee_name(b.blocks[feed]["term"]["f"]) if feed is not None else "value"))
                elif t["f"].get("crate") == "petgraph":
                    cn = callee_name(t["f"])
                    cb = (self.facts.by_npath.get(cn) or [None])[0]
                    rty = cb.lty(0) if cb else ""
                    if klass == "result" and (rty.startswith("core::result::Result<") or not cb):
                        yield ("tail", i, None, t["line"], i, "tail-return of %s" % cn)
                    elif klass in ("option", "bool") and last_seg(cn) in NONE_MEANS_UNCHANGED:
                        yield ("tail", i, None, t["line"], i, "tail-return of %s" % cn)

    def _residual_source(self, b, t):
        """block index of the call whose result feeds this from_residual (through Try::branch)"""
        e = b.expr(t["args"][0], depth=8)
        for sub in walk_expr(e):
            if sub[0] == "call" and norm_path(sub[1]["path"]) == "core::ops::Try::branch":
                for s2 in walk_expr(sub[2][0]):
                    if s2[0] == "call" and norm_path(s2[1]["path"]) != "core::ops::Try::branch":
                        return s2[3]
                return None
        return None

    def controlling_calls(self, b, blk):
        """call blocks whose result is tested by a conditional edge dominating blk"""
        out = set()
        for (src, tgt, label) in b.dominating_edges(blk):
            t = b.blocks[src]["term"]
            if t["k"] != "switch":
                continue
            e = b.expr(t["d"], depth=8)
            for sub in walk_expr(e):
                if sub[0] == "call":
                    out.add(sub[3])
        return out

    # -- the dataflow
    def analyse(self, b, klass):
        prov = self.prov(b, 1)
        succ, pred, reach = b.cfg()
        n = len(b.blocks)
        IN = [None] * n
        IN[0] = frozenset()
        work = [0]
        out_at = {}
        while work:
            i = work.pop()
            cur = set(IN[i])
            bl = b.blocks[i]
            for j, st in enumerate(bl["st"]):
                out_at[(i, j)] = frozenset(cur)
                lhs = st["lhs"]
                if lhs["l"] in prov and any(x == "*" for x in lhs["p"]):
                    cur.add(("store", i, place_str(b, lhs), st["line"]))
            out_at[(i, None)] = frozenset(cur)
            t = bl["term"]
            if t["k"] == "call" and "path" in t["f"]:
                why = self.callee_mutates(b, t, prov)
                if why:
                    cur.add(("call", i, why, t["line"]))
            for s in succ[i]:
                new = frozenset(cur) if IN[s] is None else IN[s] | cur
                if IN[s] is None or new != IN[s]:
                    IN[s] = new
                    work.append(s)
        return out_at


def klass_of(b):
    rty = b.lty(0)
    if rty.startswith("core::result::Result<"):
        return "result"
    nm = b.name
    if rty.startswith("core::option::Option<"):
        if nm in NONE_MEANS_UNCHANGED or (b.impl_trait == BUILD_ADD_EDGE and nm == "add_edge"):
            return "option"
    if rty == "bool" and nm in NONE_MEANS_UNCHANGED:
        return "bool"
    return None


def in_scope(b):
    if b.kind not in ("Fn", "AssocFn") or b.argc < 1:
        return False
    t1 = b.lty(1)
    if not is_mut_ref_ty(t1):
        return False
    head = re.match(r"[\w:]+", strip_ref(t1))
    return bool(head) and head.group(0) in TARGET_ADTS


def run(facts, types=None):
    """types: tuple of adt heads to restrict to"""
    r = RuleResult("ATOMIC", "a &mut self method that reports failure (Err / Ok(false) / documented None|false) has performed no "
                             "store through self and no mutating call on self-derived state on any path to that failure exit")
    A = Atomic(facts)
    nfun = 0
    for b in facts.bodies:
        if not in_scope(b):
            continue
        head = re.match(r"[\w:]+", strip_ref(b.lty(1))).group(0)
        if types and head not in types:
            continue
        if b.file.endswith("serialization.rs") or "quickcheck" in b.file:
            continue
        klass = klass_of(b)
        if klass is None:
            continue
        if b.npath in OUT_OF_SCOPE:
            callers = set()
            for ob in facts.bodies:
                for _, t in ob.calls():
                    if callee_name(t["f"]) == b.npath:
                        callers.add(ob.file)
            if callers and all(c.endswith("serialization.rs") for c in callers) and not b.is_pub():
                r.ok(b.npath, "out-of-scope", "excluded: " + OUT_OF_SCOPE[b.npath] + " (callers: %s)" % sorted(callers))
                continue
        nfun += 1
        state = A.analyse(b, klass)
        qcount = {}
        nexits = 0
        for (kind, blk, j, line, feed, desc) in A.exits(b, klass):
            nexits += 1
            dirt = set(state.get((blk, j), frozenset()))
            excused = []
            # idiom: callee's own failure / coupled take - effects of the call whose own result decides this exit
            ctrl = A.controlling_calls(b, blk)
            if feed is not None:
                ctrl.add(feed)
            for d in list(dirt):
                if d[0] == "call" and d[1] in ctrl:
                    dirt.discard(d)
                    excused.append("callee's own failure/coupled result: %s" % d[2])
            site = "%s@%s" % (kind, desc.replace(" ", "_"))
            qcount[site] = qcount.get(site, 0) + 1
            if qcount[site] > 1:
                site += "#%d" % qcount[site]
            if kind in ("?", "tail") and feed is not None:
                cn = callee_name(b.blocks[feed]["term"]["f"])
                qcount[cn] = qcount.get(cn, 0) + 1
                site = "%s@%s#%d" % (kind, cn, qcount[cn])
                inf = INFEASIBLE_EXITS.get((b.npath, cn, qcount[cn]))
                if inf and dirt:
                    r.ok(b.npath, site, "idiom infeasible-exit: " + inf)
                    continue
            if dirt:
                ds = sorted(dirt, key=lambda d: d[3])
                v = Violation("ATOMIC", b.npath, site, b.file, line,
                              "failure exit (%s) is reachable after self was modified: %s"
                              % (desc, "; ".join("%s at line %d" % (d[2], d[3]) for d in ds[:4])),
                              {"exit": desc, "exit_line": line, "dirt": [list(map(str, d)) for d in ds]})
                r.bad(v)
            else:
                r.ok(b.npath, site, "clean at exit" + ("; excused: " + "; ".join(sorted(set(excused))) if excused else ""))
        if nexits == 0:
            r.ok(b.npath, "no-failure-exit", "no failure exit recognised (silent)")
            r.silent += 1
    r.notes.append("fallible &mut self methods in scope: %d" % nfun)
    r._nfun = nfun
    return r
