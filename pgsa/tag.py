"""TAG - tagged-slot discipline in StableGraph (DESIGN 3.3).

A Node/Edge slot of a StableGraph means "adjacency links" when weight.is_some() and "free-list links"
when weight.is_none().  A store to slot.next / slot.node made on behalf of an *untrusted* slot
reference (whole-array iteration, index taken from a pub method's parameter, index_twice pair) must
be dominated by a liveness test of that slot / index.
"""
import re

from .core import op_place, op_local, callee_name, last_seg, norm_path, place_str, walk_expr
from .report import RuleResult, Violation

SLOT_ADTS = ("graph_impl::Node", "graph_impl::Edge")


def is_stable_slot_ty(ty):
    return re.search(r"graph_impl::(Node|Edge)<core::option::Option<", ty) is not None


def leaves(e, out=None):
    """identity leaves of an expression tree: args, locals, call sites, field names"""
    if out is None:
        out = set()
    for s in walk_expr(e):
        if not isinstance(s, tuple):
            continue
        if s[0] == "arg":
            out.add(("arg", s[1]))
        elif s[0] == "local":
            out.add(("local", s[1]))
        elif s[0] == "call":
            out.add(("callblk", s[3]))
        elif s[0] == "place":
            for x in s[2]:
                if isinstance(x, tuple) and x[0] == "f":
                    out.add(("field", x[2]))
                if isinstance(x, tuple) and x[0] == "ix":
                    out.add(("local", x[1]))
    return out


def strip_casts(e):
    """drop casts and collapse reborrows: &mut *(&mut P) -> &mut P"""
    while True:
        if isinstance(e, tuple) and e[0] in ("cast", "use") and len(e) > 1 and isinstance(e[1], tuple):
            e = e[1]
            continue
        if isinstance(e, tuple) and e[0] == "ref" and isinstance(e[2], tuple) and e[2][0] == "place" and e[2][2] == ("*",) \
                and isinstance(e[2][1], tuple) and e[2][1][0] in ("ref", "cast"):
            e = e[2][1]
            continue
        return e


class Tag:
    def __init__(self, facts):
        self.facts = facts
        self.live_filters = self._live_filters()

    def _live_filters(self):
        """crate-local &self functions of Graph/StableGraph whose result depends on a slot's weight tag"""
        out = set()
        for b in self.facts.bodies:
            if b.kind != "AssocFn" or "stable_graph" not in b.file or b.argc < 2:
                continue
            if not b.lty(1).startswith("&'{erased} graph_impl::stable_graph::StableGraph"):
                continue
            rty = b.lty(0)
            if not (rty == "bool" or rty.startswith("core::option::Option<")):
                continue
            reads_weight = False
            for gb in self.facts.with_closures(b):
                for _, _, st in gb.stmts():
                    rv = st["rv"]
                    pls = []
                    if rv["k"] in ("ref", "discr"):
                        pls.append(rv["pl"])
                    for o in rv.get("o", []):
                        p = op_place(o)
                        if p:
                            pls.append(p)
                    for p in pls:
                        for x in p["p"]:
                            if isinstance(x, dict) and x.get("n") == "weight" and x.get("a") in SLOT_ADTS:
                                reads_weight = True
                for _, t in gb.calls():
                    if callee_name(t["f"]) in out:
                        reads_weight = True
            if reads_weight:
                out.add(b.npath)
        # one more round for wrappers (contains_node -> get_node)
        for _ in range(2):
            for b in self.facts.bodies:
                if b.kind == "AssocFn" and "stable_graph" in b.file and b.npath not in out and b.argc >= 2 \
                        and b.lty(1).startswith("&'{erased} graph_impl::stable_graph::StableGraph") \
                        and (b.lty(0) == "bool" or b.lty(0).startswith("core::option::Option<")):
                    if any(callee_name(t["f"]) in out for _, t in b.calls()):
                        out.add(b.npath)
        return out

    # ---- provenance of a slot reference ----------------------------------
    def provenance(self, b, slot_expr):
        """-> (class, subject leaves, description)"""
        e = strip_casts(slot_expr)
        lv = leaves(e)
        calls = [s for s in walk_expr(e) if isinstance(s, tuple) and s[0] == "call"]
        for c in calls:
            np_ = norm_path(c[1]["path"])
            if np_ == "graph_impl::index_twice":
                return "PAIR", lv, "index_twice pair"
            if callee_name(c[1]) in self.live_filters:
                return "LIVE", lv, "slot returned by liveness filter %s" % callee_name(c[1])
        for c in calls:
            np_ = norm_path(c[1]["path"])
            if np_ == "core::iter::Iterator::next":
                st = c[1].get("self", "")
                if re.search(r"Iter(Mut)?<'\{erased\}, graph_impl::(Node|Edge)<core::option::Option", st):
                    return "ALL", lv, "loop variable over the whole slot array"
        for c in calls:
            np_ = norm_path(c[1]["path"])
            if np_ in ("core::ops::IndexMut::index_mut", "core::ops::Index::index", "core::slice::«impl [T]»::get",
                       "core::slice::«impl [T]»::get_mut", "core::slice::<impl [T]>::get", "core::slice::<impl [T]>::get_mut") and len(c[2]) >= 2:
                idx = _old_value(c[2][1])
                il = leaves(idx)
                if ("field", "free_node") in il or ("field", "free_edge") in il:
                    return "FREE", lv, "indexed by the free-list head"
                if ("field", "next") in il:
                    return "LINK", lv, "indexed by a link read from another slot"
                for s in walk_expr(idx):
                    if isinstance(s, tuple) and s[0] == "call" and norm_path(s[1]["path"]) == "core::iter::Iterator::next" \
                            and "core::ops::Range<usize>" in s[1].get("self", ""):
                        return "ALL", lv, "indexed by a loop variable over the whole index range"
                args = {x for x in il if x[0] == "arg" and x[1] != 1}
                if args:
                    if b.is_pub():
                        return "API", lv, "indexed by parameter %s of a pub method" % sorted(a[1] for a in args)
                    return "HELPER", lv, "indexed by a private helper's parameter"
                return "OTHER", lv, "indexed by a local value"
        if isinstance(e, tuple) and e[0] == "arg":
            return "HELPER", lv, "slot reference is a parameter"
        return "OTHER", lv, "unrecognised slot provenance"

    # ---- liveness guards dominating a block --------------------------------
    def guards(self, b, blk):
        """[(subject leaves, description)] for liveness tests on dominating conditional edges"""
        out = []
        for (src, tgt, label) in b.dominating_edges(blk):
            t = b.blocks[src]["term"]
            if t["k"] != "switch":
                continue
            e = b.expr(t["d"], depth=18)
            for s in walk_expr(e):
                if not isinstance(s, tuple):
                    continue
                if s[0] == "place" and any(isinstance(x, tuple) and x[0] == "f" and x[2] == "weight" and x[3] in SLOT_ADTS for x in s[2]):
                    pr = s[2]
                    wi = [n for n, x in enumerate(pr) if isinstance(x, tuple) and x[0] == "f" and x[2] == "weight"][0]
                    base = s[1]
                    pre = tuple(x for x in pr[:wi] if x != "*")
                    if pre:
                        base = ("place", s[1], tuple(pr[:wi]))
                    else:
                        # a match guard tests the slot through a shared reference to the binding (`&an`): &P followed by a deref is P
                        derefs = len([x for x in pr[:wi] if x == "*"])
                        while derefs > 1 and isinstance(base, tuple) and base[0] == "ref":
                            base = strip_casts(base[2])
                            derefs -= 1
                    out.append((slot_key(base, b), "test of slot.weight at line %d" % t["line"]))
                if s[0] == "call" and norm_path(s[1]["path"]) in ("core::option::Option::filter", "core::option::Option::is_some_and") and len(s[2]) >= 2:
                    # slots.get(i).filter(|x| x.weight.is_some()): the liveness test sits in the closure
                    clo = strip_casts(s[2][1])
                    cb = self.facts.body(clo[1]) if isinstance(clo, tuple) and clo[0] == "agg" and len(clo) > 1 else None
                    reads = False
                    if cb is not None:
                        for _, _, st2 in cb.stmts():
                            pls = [st2["rv"]["pl"]] if st2["rv"].get("pl") else []
                            pls += [q for q in (op_place(o_) for o_ in st2["rv"].get("o", [])) if q]
                            for pl in pls:
                                if any(isinstance(x, dict) and x.get("n") == "weight" and x.get("a") in SLOT_ADTS for x in pl["p"]):
                                    reads = True
                    if reads:
                        out.append((slot_key(s[2][0], b), "Option::filter on slot.weight at line %d" % t["line"]))
                if s[0] == "call" and callee_name(s[1]) in self.live_filters:
                    lv = set()
                    for a in b.blocks[s[3]]["term"]["args"][1:]:
                        lv |= leaves(b.expr(a, 12, named_leaf=True))
                    nm = last_seg(callee_name(s[1]))
                    kind = "Edge" if "edge" in nm else "Node"
                    out.append((("IDX", kind, frozenset(x for x in lv if x[0] in ("arg", "local") and x != ("arg", 1))),
                                "liveness predicate %s at line %d" % (nm, t["line"])))
        return out


def _old_value(e):
    """mem::replace(dest, new) / Option::replace / mem::take return the OLD content of dest: the value does not derive from `new`"""
    if isinstance(e, tuple):
        if e[0] == "call" and norm_path(e[1]["path"]) in ("core::mem::replace", "core::option::Option::replace", "core::mem::take", "core::option::Option::take") and e[2]:
            return ("call", e[1], [_old_value(e[2][0])], e[3]) if len(e) > 3 else ("call", e[1], [_old_value(e[2][0])])
        if e[0] == "call":
            return ("call", e[1], [_old_value(a) for a in e[2]]) + tuple(e[3:])
        if e[0] in ("place",):
            return ("place", _old_value(e[1]), e[2])
        if e[0] == "ref":
            return ("ref", e[1], _old_value(e[2]))
        if e[0] in ("cast",):
            return ("cast", _old_value(e[1]), e[2])
        if e[0] == "bin":
            return ("bin", e[1], _old_value(e[2]), _old_value(e[3]))
        if e[0] == "un":
            return ("un", e[1], _old_value(e[2]))
    return e


INDEXERS = ("core::ops::IndexMut::index_mut", "core::ops::Index::index", "core::slice::«impl [T]»::get",
            "core::slice::«impl [T]»::get_mut", "core::slice::«impl [T]»::get_unchecked", "core::slice::«impl [T]»::get_unchecked_mut")


def slot_key(e, b=None):
    """identity of the slot an expression refers to: ('IDX', Node|Edge, idx-leaves) for indexed slots, else the tree itself"""
    e = strip_casts(e)
    for c in walk_expr(e):
        if isinstance(c, tuple) and c[0] == "call" and norm_path(c[1]["path"]) == "graph_impl::index_twice":
            return ("TREE", _tree(e))
    for c in walk_expr(e):
        if isinstance(c, tuple) and c[0] == "call" and norm_path(c[1]["path"]) in INDEXERS and len(c[2]) >= 2:
            st = c[1].get("self", "") + " ".join(c[1].get("targs", []))
            kind = "Node" if "graph_impl::Node<" in st else ("Edge" if "graph_impl::Edge<" in st else "?")
            idx = c[2][1]
            if b is not None:
                idx = b.expr(b.blocks[c[3]]["term"]["args"][1], 12, named_leaf=True)
            il = frozenset(x for x in leaves(idx) if x[0] in ("arg", "local") and x != ("arg", 1))
            return ("IDX", kind, il)
    return ("TREE", _tree(e))


def _tree(e):
    """structural identity of an expression, with `&mut *x` / `&*x` reborrows removed"""
    if not isinstance(e, tuple):
        return e
    if e[0] == "ref" and isinstance(e[2], tuple) and e[2][0] == "place" and e[2][2] == ("*",):
        return _tree(e[2][1])
    if e[0] == "call":
        return ("call", e[1]["path"], e[3])
    if e[0] == "place" and isinstance(e[1], tuple) and e[1][0] == "ref" and e[2] and e[2][0] == "*":
        # *(&P) is P (a match guard looks at its binding through a shared reference)
        rest = tuple(e[2][1:])
        return _tree(("place", e[1][2], rest)) if rest else _tree(e[1][2])
    if e[0] == "place":
        return ("place", _tree(e[1]), e[2])
    return tuple(_tree(x) if isinstance(x, (tuple, list)) else x for x in e)


def same_slot(k1, k2):
    if k1[0] == "IDX" and k2[0] == "IDX":
        return k1[1] == k2[1] and bool(k1[2]) and k1[2] == k2[2]
    return k1 == k2


def _short(e):
    s = str(e)
    return s[:60]


def _slot_local_expr(b, place):
    """expression of the slot reference a place is based on, or None if the base is a by-value local"""
    l = place["l"]
    ty = b.lty(l)
    if not ty.startswith("&") and not ty.startswith("*"):
        # (*_1).g.nodes[_x].next style direct places do not occur (Vec indexing is a call); a by-value local is FRESH
        return None
    return b.local_expr(l, 14)


def run(facts, only_functions=None):
    rw = RuleResult("TAG-W", "in StableGraph every store to slot.next / slot.node made through a whole-array loop variable, an index taken "
                             "from a pub method's parameter, or an index_twice pair is dominated by a liveness test (weight tag) of that slot/index")
    rr = RuleResult("TAG-R", "in StableGraph every read of slot.next through an index taken from a pub method's parameter is dominated by a "
                             "liveness test of that slot/index")
    T = Tag(facts)
    for b in facts.bodies:
        if b.kind not in ("AssocFn", "Fn", "Closure"):
            continue
        if "stable_graph/mod.rs" not in b.file:
            continue
        if b.name in ("check_free_lists",):
            continue
        if only_functions and b.name not in only_functions:
            continue
        # ---- stores
        sites = []
        for i, j, st in b.stmts():
            lhs = st["lhs"]
            fs = [x for x in lhs["p"] if isinstance(x, dict) and "f" in x]
            if not any(x.get("n") in ("next", "node") and x.get("a") in SLOT_ADTS for x in fs):
                continue
            if not is_stable_slot_ty(b.lty(lhs["l"])):
                continue
            fld = [x.get("n") for x in fs if x.get("n") in ("next", "node")][0]
            sites.append((i, st["line"], lhs, "store %s" % place_str(b, lhs), fld))
        for i, t in b.calls():
            nm = last_seg(t["f"]["path"])
            if nm not in ("swap", "reverse", "fill", "copy_from_slice", "clone_from_slice", "rotate_left", "rotate_right", "replace", "take", "swap_with_slice"):
                continue
            for a in t["args"]:
                e = strip_casts(b.expr(a, 6))
                if isinstance(e, tuple) and e[0] == "ref" and e[1] and isinstance(e[2], tuple) and e[2][0] == "place":
                    pr = e[2][2]
                    if any(isinstance(x, tuple) and x[0] == "f" and x[2] in ("next", "node") and x[3] in SLOT_ADTS for x in pr):
                        # find the base local of that place
                        basee = e[2][1]
                        fld = [x[2] for x in pr if isinstance(x, tuple) and x[0] == "f" and x[2] in ("next", "node")][0]
                        sites.append((i, t["line"], ("expr", basee), "%s(&mut slot.%s)" % (nm, fld), fld))
        cnt = {}
        for (blk, line, lhs, what, fld) in sites:
            if isinstance(lhs, tuple):
                sexpr = lhs[1]
            else:
                sexpr = _slot_local_expr(b, lhs)
                if sexpr is None:
                    continue
            klass, lv, desc = T.provenance(b, sexpr)
            if not isinstance(lhs, tuple):
                lv = lv | {("local", lhs["l"])}
            k = "%s.%s" % (klass, fld)
            cnt[k] = cnt.get(k, 0) + 1
            site = "%s#%d" % (k, cnt[k])
            if klass in ("ALL", "API", "PAIR"):
                gs = T.guards(b, blk)
                sk = slot_key(sexpr, b)
                match = [g for g in gs if same_slot(g[0], sk)]
                if match:
                    rw.ok(b.npath, site, "%s; guarded by %s" % (desc, match[0][1]))
                else:
                    v = Violation("TAG-W", b.npath, site, b.file, line,
                                  "%s: %s with no dominating liveness test of that slot - on a vacant slot this overwrites "
                                  "free-list links / threads a live edge through a vacant node" % (what, desc),
                                  {"provenance": klass, "guards_seen": [g[1] for g in gs]})
                    rw.bad(v)
            elif klass in ("FREE", "LIVE"):
                rw.ok(b.npath, site, "%s (no guard needed)" % desc)
            else:
                rw.silent += 1
                rw.ok(b.npath, site, "%s (silent)" % desc)
        # ---- reads of .next seeded from an API index
        rcnt = 0
        for i, j, st in b.stmts():
            rv = st["rv"]
            pls = []
            if rv["k"] in ("ref",):
                pls.append(rv["pl"])
            for o in rv.get("o", []):
                p = op_place(o)
                if p:
                    pls.append(p)
            for p in pls:
                fs = [x for x in p["p"] if isinstance(x, dict) and "f" in x]
                if not any(x.get("n") == "next" and x.get("a") == "graph_impl::Node" for x in fs):
                    continue
                if not is_stable_slot_ty(b.lty(p["l"])):
                    continue
                sexpr = _slot_local_expr(b, p)
                if sexpr is None:
                    continue
                klass, lv, desc = T.provenance(b, sexpr)
                lv = lv | {("local", p["l"])}
                if klass != "API":
                    continue
                rcnt += 1
                site = "read.next#%d" % rcnt
                gs = T.guards(b, i)
                sk = slot_key(sexpr, b)
                match = [g for g in gs if same_slot(g[0], sk)]
                if match:
                    rr.ok(b.npath, site, "%s; guarded by %s" % (desc, match[0][1]))
                else:
                    v = Violation("TAG-R", b.npath, site, b.file, st["line"],
                                  "read of slot.next through %s with no dominating liveness test: on a vacant slot the value "
                                  "is a free-list link, not an adjacency list head" % desc, {})
                    rr.bad(v)
        # ---- a slot reference obtained through an API index handed to another function (which will read its links)
        for i, t in b.calls():
            if t["f"].get("crate") != "petgraph":
                continue
            for a in t["args"]:
                l = op_local(a)
                if l is None or not re.match(r"&'\{erased\} (mut )?graph_impl::Node<core::option::Option<", b.lty(l)):
                    continue
                sexpr = b.local_expr(l, 14)
                klass, lv, desc = T.provenance(b, sexpr)
                if klass != "API":
                    continue
                rcnt += 1
                site = "pass-slot#%d->%s" % (rcnt, last_seg(callee_name(t["f"])))
                gs = T.guards(b, i)
                sk = slot_key(sexpr, b)
                match = [g for g in gs if same_slot(g[0], sk)]
                if match:
                    rr.ok(b.npath, site, "%s; guarded by %s" % (desc, match[0][1]))
                else:
                    rr.bad(Violation("TAG-R", b.npath, site, b.file, t["line"],
                                     "a node slot reached through %s is handed to %s without a dominating liveness test: for a vacant slot its "
                                     "`next` holds free-list links, which would be walked as an adjacency list" % (desc, callee_name(t["f"])), {}))
    rw.floor = 14
    rw.floor_what = "next/node stores"
    rw.notes.append("liveness filters (summarised): %s" % sorted(T.live_filters))
    return [rw, rr]
