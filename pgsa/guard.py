"""GUARD - dominating-guard rules (DESIGN 3.7): a *sink* statement must be dominated by the conditional
edge(s) that establish its precondition.  `if c {sink}`, `if !c {continue}; sink`, `assert!(c); sink`
and `match` forms are the same thing at MIR level.
"""
import re

from .core import op_place, op_local, callee_name, last_seg, norm_path, place_str, walk_expr
from .report import RuleResult, Violation
from .tag import leaves, strip_casts

CMP = ("Eq", "Ne", "Lt", "Le", "Gt", "Ge")
NEG = {"Eq": "Ne", "Ne": "Eq", "Lt": "Ge", "Ge": "Lt", "Gt": "Le", "Le": "Gt"}


def edge_atom(b, src, label, depth=12, named_leaf=False):
    """(expr, truth) for a switch edge: bool switches give truth True/False with `!` peeled off and
    comparisons normalised to truth=True; enum matches give (('discr', place), variant)"""
    t = b.blocks[src]["term"]
    if t["k"] != "switch":
        return None
    e = b.expr(t["d"], depth, named_leaf)
    if isinstance(e, tuple) and e[0] == "local" and len([x for x in b.defs().get(e[1], []) if x[0] != "pst"]) > 1:
        # several definitions (an inlined helper's result copied to each of its return sites): take the one that reaches this block
        e = b.expr_at(t["d"], src, None, depth, named_leaf)
    if e[0] == "discr":
        # two-variant enums (Option / Result / ControlFlow): name the `otherwise` arm by its discriminant
        if label == "otherwise" and len(t["cases"]) == 1 and int(t["cases"][0][0]) in (0, 1):
            ty = ""
            sd = b.single_def(op_local(t["d"])) if op_local(t["d"]) is not None else None
            if sd and sd[0] == "st":
                pl = b.blocks[sd[1]]["st"][sd[2]]["rv"].get("pl")
                if pl is not None and not pl["p"]:
                    ty = b.lty(pl["l"])
            if ty.startswith(("core::option::Option<", "core::result::Result<", "core::ops::ControlFlow<")):
                label = 1 - int(t["cases"][0][0])
        return (e, label)
    truth = None
    vals = [c[0] for c in t["cases"]]
    if vals == [0]:
        truth = (label != 0) if label in (0, "otherwise") else None
    elif vals == [1]:
        truth = (label == 1)
    if truth is None:
        return (e, label)
    while isinstance(e, tuple) and e[0] == "un" and e[1] == "Not":
        e = e[2]
        truth = not truth
    if isinstance(e, tuple) and e[0] == "bin" and e[1] in CMP and not truth:
        e = ("bin", NEG[e[1]], e[2], e[3])
        truth = True
    # PartialEq::eq / ne calls as comparisons
    if isinstance(e, tuple) and e[0] == "call" and norm_path(e[1]["path"]) in ("core::cmp::PartialEq::eq", "core::cmp::PartialEq::ne"):
        op = "Eq" if last_seg(e[1]["path"]) == "eq" else "Ne"
        if not truth:
            op = NEG[op]
            truth = True
        e = ("bin", op, e[2][0], e[2][1])
    for nm, op in (("lt", "Lt"), ("le", "Le"), ("gt", "Gt"), ("ge", "Ge")):
        if isinstance(e, tuple) and e[0] == "call" and norm_path(e[1]["path"]) == "core::cmp::PartialOrd::" + nm:
            if not truth:
                op = NEG[op]
                truth = True
            e = ("bin", op, e[2][0], e[2][1])
    # canonical orientation: a > b is b < a, a >= b is b <= a (rules only ever see Lt / Le / Eq / Ne)
    if isinstance(e, tuple) and e[0] == "bin" and e[1] in ("Gt", "Ge") and truth is True:
        e = ("bin", "Lt" if e[1] == "Gt" else "Le", e[3], e[2])
    return (e, truth)


def dom_atoms(b, blk, named_leaf=False):
    out = []
    for (src, tgt, label) in b.dominating_edges(blk):
        if isinstance(label, tuple):
            continue
        a = edge_atom(b, src, label, 12, named_leaf)
        if a is not None:
            out.append((a[0], a[1], src))
    return out


def deep_leaves(b, e, depth=3):
    """leaves of e, plus the leaves of the defining expressions of the named single-definition locals among them (temporaries are transparent)"""
    out = set(leaves(e))
    frontier = {x for x in out if x[0] == "local"}
    for _ in range(depth):
        nxt = set()
        for x in frontier:
            sd = b.single_def(x[1])
            if sd is None:
                continue
            ex = b.local_expr(x[1], 8)
            if isinstance(ex, tuple) and ex != ("local", x[1]):
                lv = set(leaves(ex))
                nxt |= {y for y in lv if y[0] == "local" and y not in out}
                out |= lv
        frontier = nxt
        if not frontier:
            break
    return out


def deep_has_call(b, e, names, depth=3):
    """has_call, looking through named single-definition temporaries"""
    if has_call(e, names):
        return True
    seen = set()
    frontier = {x for x in leaves(e) if x[0] == "local"}
    for _ in range(depth):
        nxt = set()
        for x in frontier:
            if x in seen:
                continue
            seen.add(x)
            ex = b.local_expr(x[1], 8)
            if isinstance(ex, tuple) and ex != ("local", x[1]):
                if has_call(ex, names):
                    return True
                nxt |= {y for y in leaves(ex) if y[0] == "local"}
        frontier = nxt
    return False


def has_call(e, names):
    for s in walk_expr(e):
        if isinstance(s, tuple) and s[0] == "call" and (last_seg(s[1]["path"]) in names or norm_path(s[1]["path"]) in names):
            return True
    return False


def call_atom(e, path_suffixes):
    """the call node if e is (a reborrow/deref of) a call to one of the given functions"""
    e = strip_casts(e)
    if isinstance(e, tuple) and e[0] == "call":
        np_ = callee_name(e[1])
        p2 = norm_path(e[1]["path"])
        for sfx in path_suffixes:
            if np_ == sfx or np_.endswith("::" + sfx) or p2 == sfx or p2.endswith("::" + sfx):
                return e
    return None


def roots(e):
    """named locals / args an expression is built from"""
    return {x for x in leaves(e) if x[0] in ("arg", "local")}


def alias_closure(b, roots):
    """a named local that is a plain copy of another value (`let node = c;`, a loop's `break c`) stands for the same thing: add the named roots of
    its (single) definition"""
    out = set(roots)
    frontier = set(roots)
    for _ in range(4):
        nxt = set()
        for x in frontier:
            if x[0] != "local":
                continue
            ds = [d for d in b.defs().get(x[1], []) if d[0] == "st"]
            if not ds or len(ds) > 3:
                continue
            for d in ds:
                rv = b.blocks[d[1]]["st"][d[2]]["rv"]
                if rv["k"] == "use" and op_place(rv["o"][0]) is not None and not op_place(rv["o"][0])["p"]:
                    pl = op_place(rv["o"][0])
                    e2 = b.place_expr(pl, 8, named_leaf=True)
                    for y in leaves(e2):
                        if y[0] in ("arg", "local") and y not in out:
                            nxt.add(y)
                elif rv["k"] == "use" and op_place(rv["o"][0]) is not None and all(isinstance(q, dict) and ("f" in q or "dc" in q) for q in op_place(rv["o"][0])["p"]):
                    # `let (row, column) = pair;` / `Some((row, column)) = helper()`: a field of an aggregate that was built from plain values
                    pl = op_place(rv["o"][0])
                    e2 = b.expr_at({"copy": {"l": pl["l"], "p": []}}, d[1], d[2], 8, True)
                    okp = True
                    for q in pl["p"]:
                        if "dc" in q:
                            continue
                        if isinstance(e2, tuple) and e2[0] == "agg" and q["f"] < len(e2[3]):
                            e2 = e2[3][q["f"]]
                        else:
                            okp = False
                            break
                    if okp and isinstance(e2, tuple) and e2[0] in ("arg", "local"):
                        if e2 not in out:
                            nxt.add(e2)
        out |= nxt
        frontier = nxt
        if not frontier:
            break
    return out


def named_roots(b, o_or_e, is_operand=True):
    e = b.expr(o_or_e, 12, named_leaf=True) if is_operand else o_or_e
    return alias_closure(b, {x for x in leaves(e) if x[0] in ("arg", "local")})


def map_roots(b, o):
    """identity of a visit-map operand: named roots plus the field path (self.discovered vs self.finished)"""
    e = b.expr(o, 12, named_leaf=True)
    return {x for x in leaves(e) if x[0] in ("arg", "local", "field")}


def derived_locals(b, seeds):
    """locals whose value is a projection / copy / aggregate of the seed locals only (a popped element taken apart, re-tupled, bound to names)"""
    out = set(seeds)
    grew = True
    while grew:
        grew = False
        for i, j, st in b.stmts():
            l = st["lhs"]["l"]
            if l in out or st["lhs"]["p"]:
                continue
            rv = st["rv"]
            if rv["k"] in ("use", "cast") and op_place(rv["o"][0]) is not None and op_place(rv["o"][0])["l"] in out:
                out.add(l)
                grew = True
            elif rv["k"] == "agg" and rv["o"] and all((op_place(o_) is not None and op_place(o_)["l"] in out) for o_ in rv["o"]):
                out.add(l)
                grew = True
            elif rv["k"] == "ref" and rv["pl"]["l"] in out:
                out.add(l)
                grew = True
    return out


class Obl:
    """collects obligations of one rule"""

    def __init__(self, rule, clause):
        self.r = RuleResult(rule, clause)

    def need_fn(self, facts, suffix, **kw):
        bs = facts.find(suffix, **kw)
        if not bs:
            self.r.bad(Violation(self.r.rule, suffix, "anchor-missing", "-", 0,
                                 "anchor function %s not found in the facts: the rule cannot be decided - fail closed" % suffix))
        return bs

    def check(self, b, site, line, ok, why_ok, why_bad, detail=None):
        if ok:
            self.r.ok(b.npath, site, why_ok)
        else:
            self.r.bad(Violation(self.r.rule, b.npath, site, b.file, line, why_bad, detail or {}))


# ----------------------------------------------------------------------------------------------
# sinks
def agg_sites(b, adt_suffix, variant):
    for i, j, st in b.stmts():
        rv = st["rv"]
        if rv["k"] == "agg" and rv["ak"] == "adt" and (rv["name"] == adt_suffix or rv["name"].endswith("::" + adt_suffix)) and rv["variant"] == variant:
            yield i, j, st


def return_some_sites(b):
    for i, j, st in b.stmts():
        rv = st["rv"]
        if st["lhs"]["l"] == 0 and not st["lhs"]["p"] and rv["k"] == "agg" and rv["name"] == "core::option::Option" and rv["variant"] == "Some":
            yield i, j, st


def calls_named(b, names):
    for i, t in b.calls():
        np_ = norm_path(t["f"]["path"])
        cn = callee_name(t["f"])
        if last_seg(np_) in names or np_ in names or cn in names:
            yield i, t


def visit_guard(b, blk, node_roots, want=True, fn=("visit::VisitMap::visit",), want_map=None):
    """is blk dominated by an edge on which VisitMap::visit(map, n) (or is_visited) has truth `want`,
    for n sharing a root with node_roots?"""
    hits = []
    for (e, truth, src) in dom_atoms(b, blk):
        c = call_atom(e, fn)
        if c is None or truth is not want:
            continue
        args = b.blocks[c[3]]["term"]["args"]
        if len(args) < 2:
            continue
        nr = named_roots(b, args[1])
        mr = map_roots(b, args[0])
        if node_roots is not None and not (nr & node_roots):
            continue
        if want_map is not None and mr != want_map:
            continue
        hits.append((c, mr, nr, src))
    return hits


def reach(b, start, avoid=()):
    succ, _, _ = b.cfg()
    seen = set()
    st = [start]
    while st:
        x = st.pop()
        if x in seen or x in avoid:
            continue
        seen.add(x)
        st.extend(succ[x])
    return seen


# ----------------------------------------------------------------------------------------------
def visit_once(facts):
    """C08/C09/C10/C12: emissions and work-list insertions under test-and-set guards"""
    o = Obl("GUARD-VISIT", "every emission of a node by Dfs/DfsPostOrder/Bfs/Topo/dfs_visitor/toposort (and every settled-node step of "
                           "dijkstra, every emitted edge of Kruskal/Prim) is dominated by the test-and-set (VisitMap::visit / union / "
                           "contains) that makes it happen at most once")
    VIS = ("visit::VisitMap::visit",)
    ISV = ("visit::VisitMap::is_visited",)
    # Dfs::next: return Some(node) under discovered.visit(node) == true
    for b in o.need_fn(facts, "visit::traversal::Dfs::next"):
        n = 0
        for i, j, st in return_some_sites(b):
            n += 1
            nr = named_roots(b, st["rv"]["o"][0])
            h = visit_guard(b, i, nr, True, VIS)
            o.check(b, "emit#%d" % n, st["line"], bool(h), "return Some(n) dominated by visit(n)==true",
                    "Dfs::next returns a node that is not dominated by the true edge of discovered.visit(node): a node reachable "
                    "along two paths would be emitted twice")
        o.check(b, "emits", b.line, n >= 1, "%d emission site(s)" % n, "no `return Some(node)` found")
    # DfsPostOrder::next: return Some(nx) under finished.visit(nx)==true and discovered.visit(nx)==false
    for b in o.need_fn(facts, "visit::traversal::DfsPostOrder::next"):
        n = 0
        for i, j, st in return_some_sites(b):
            n += 1
            nr = named_roots(b, st["rv"]["o"][0])
            h1 = visit_guard(b, i, nr, True, VIS)
            h0 = visit_guard(b, i, nr, False, VIS)
            distinct = h1 and h0 and any(a[1] != c[1] for a in h1 for c in h0)
            o.check(b, "emit#%d" % n, st["line"], bool(distinct),
                    "post-order emission dominated by discovered.visit(n)==false and finished.visit(n)==true (two different maps)",
                    "DfsPostOrder::next emits a node without both `discovered.visit(nx)==false` (second encounter) and "
                    "`finished.visit(nx)==true` (first finish) dominating it")
        o.check(b, "emits", b.line, n >= 1, "%d emission site(s)" % n, "no `return Some(node)` found")
    # Bfs::next: push_back(succ) under discovered.visit(succ)==true ; Bfs::new marks the start
    for b in o.need_fn(facts, "visit::traversal::Bfs::next"):
        n = 0
        for i, t in calls_named(b, ("push_back", "push_front")):
            n += 1
            nr = named_roots(b, t["args"][1])
            h = visit_guard(b, i, nr, True, VIS)
            o.check(b, "enqueue#%d" % n, t["line"], bool(h), "enqueue dominated by visit(succ)==true (mark on push)",
                    "Bfs::next enqueues a successor not dominated by the true edge of discovered.visit(succ): nodes would be "
                    "enqueued (and emitted) more than once")
        o.check(b, "enqueues", b.line, n >= 1, "%d enqueue site(s)" % n, "no enqueue found")
    for b in o.need_fn(facts, "visit::traversal::Bfs::new"):
        vis = [(i, t) for i, t in calls_named(b, VIS)]
        push = [(i, t) for i, t in calls_named(b, ("push_back", "push_front"))]
        ok = False
        for (i, t) in vis:
            for (k, p) in push:
                if named_roots(b, t["args"][1]) & named_roots(b, p["args"][1]):
                    ok = True
        o.check(b, "start-marked", b.line, ok, "the start node is marked discovered and enqueued",
                "Bfs::new does not both mark and enqueue the start node (mark-on-push needs the start marked)")
    # Topo::next
    for b in o.need_fn(facts, "visit::traversal::Topo::next"):
        n = 0
        for i, j, st in return_some_sites(b):
            n += 1
            nr = named_roots(b, st["rv"]["o"][0])
            h = visit_guard(b, i, nr, False, ISV)
            # ordered.visit(nix) must dominate the return
            vcalls = [k for k, t in calls_named(b, VIS) if named_roots(b, t["args"][1]) & nr]
            dom = any(b.dominates(k, i) for k in vcalls)
            o.check(b, "emit#%d" % n, st["line"], bool(h) and dom,
                    "emission dominated by is_visited(n)==false and by the call ordered.visit(n)",
                    "Topo::next emits a node without `!ordered.is_visited(nix)` dominating it or without marking it ordered first")
        m = 0
        for i, t in calls_named(b, ("push",)):
            if not norm_path(t["f"]["path"]).startswith("alloc::vec::Vec"):
                continue
            m += 1
            ok = False
            for (e, truth, src) in dom_atoms(b, i):
                c = call_atom(e, ("core::iter::Iterator::all",))
                if c is not None and truth is True:
                    ok = True
                # the dual form: !preds.any(|b| !ordered.is_visited(&b))
                c2 = call_atom(e, ("core::iter::Iterator::any",))
                if c2 is not None and truth is False and len(c2[2]) >= 2:
                    clo = strip_casts(c2[2][1])
                    cb = facts.body(clo[1]) if isinstance(clo, tuple) and clo[0] == "agg" and len(clo) > 1 else None
                    if cb is not None:
                        for _, _, st2 in cb.stmts():
                            if st2["lhs"]["l"] == 0 and not st2["lhs"]["p"] and st2["rv"]["k"] == "un" and st2["rv"]["op"] == "Not":
                                ex = cb.expr(st2["rv"]["o"][0], 8)
                                if any(isinstance(s_, tuple) and s_[0] == "call" and norm_path(s_[1]["path"]).endswith("VisitMap::is_visited") for s_ in walk_expr(ex)):
                                    ok = True
            o.check(b, "push#%d" % m, t["line"], ok, "successor pushed only under all(predecessors ordered)==true",
                    "Topo::next pushes a successor that is not dominated by the all-predecessors-ordered test")
        o.check(b, "emits", b.line, n >= 1 and m >= 1, "%d emission, %d push site(s)" % (n, m), "emission/push sites not found")
    # toposort's inlined DFS (closure): finish_stack.push(nx) under finished.visit(nx)==true & discovered.visit(nx)==false
    for root in o.need_fn(facts, "algo::toposort"):
        n = 0
        for b in facts.with_closures(root):
            for i, t in calls_named(b, ("push",)):
                if not norm_path(t["f"]["path"]).startswith("alloc::vec::Vec"):
                    continue
                nr = named_roots(b, t["args"][1])
                h1 = visit_guard(b, i, nr, True, VIS)
                h0 = visit_guard(b, i, nr, False, VIS)
                if not h0 and not h1:
                    continue     # the work-stack pushes (dfs.stack) are not emissions
                n += 1
                distinct = h1 and h0 and any(a[1] != c[1] for a in h1 for c in h0)
                o.check(b, "finish#%d" % n, t["line"], bool(distinct), "finish_stack.push(nx) under discovered.visit==false and finished.visit==true",
                        "toposort records a node as finished without both visit guards dominating the push")
        o.check(root, "finishes", root.line, n >= 1, "%d finish site(s)" % n, "no guarded finish_stack.push found in toposort")
    # dijkstra: relaxation (scores entry / heap push) dominated by !visited.is_visited(next); settled node skipped
    for b in o.need_fn(facts, "algo::dijkstra::dijkstra"):
        n = 0
        for i, t in calls_named(b, ("push",)):
            if "BinaryHeap" not in norm_path(t["f"]["path"]):
                continue
            if not visit_guard(b, i, None, False, ISV) and not b.dominating_edges(i):
                continue     # the initial push of the start node
            if len([1 for _ in b.dominating_edges(i)]) <= 1:
                continue
            n += 1
            h = visit_guard(b, i, None, False, ISV)
            # the same test as a filter on the edge iterator: `for edge in graph.edges(node).filter(|e| !visited.is_visited(&e.target()))`
            for (ae, lab, src) in dom_atoms(b, i):
                if not (isinstance(ae, tuple) and ae[0] == "discr" and lab == 1):
                    continue
                for s_ in walk_expr(ae):
                    if isinstance(s_, tuple) and s_[0] == "call" and last_seg(s_[1]["path"]) == "filter" and len(s_[2]) >= 2:
                        clo = strip_casts(s_[2][1])
                        cb = facts.body(clo[1]) if isinstance(clo, tuple) and clo[0] == "agg" and len(clo) > 1 else None
                        if cb is None:
                            continue
                        for _, _, cst in cb.stmts():
                            if cst["lhs"]["l"] == 0 and not cst["lhs"]["p"]:
                                re_ = cb.expr({"copy": cst["lhs"]}, 8) if False else (cb.expr(cst["rv"]["o"][0], 8) if cst["rv"]["k"] == "use" else
                                                                                      ("un", cst["rv"].get("op"), cb.expr(cst["rv"]["o"][0], 8)) if cst["rv"]["k"] == "un" else None)
                                if isinstance(re_, tuple) and re_[0] == "un" and re_[1] == "Not" and call_atom(re_[2], ISV) is not None:
                                    h = list(h) + [("filter-closure", src)]
            o.check(b, "relax#%d" % n, t["line"], len(h) >= 2,
                    "heap push dominated by !is_visited(node) (popped node not settled) and !is_visited(next) (target not settled)",
                    "dijkstra relaxes an edge without both settled-tests (`visited.is_visited(&node)`, `visited.is_visited(&next)`) "
                    "being false on the dominating edges")
        o.check(b, "relaxations", b.line, n >= 1, "%d relaxation push site(s)" % n, "relaxation sites not found")
    # Kruskal: Element::Edge emitted only under union(..)==true
    for b in o.need_fn(facts, "«algo::min_spanning_tree::MinSpanningTree as core::iter::Iterator»::next"):
        n = 0
        for i, j, st in agg_sites(b, "data::Element", "Edge"):
            n += 1
            ok = False
            for (e, truth, src) in dom_atoms(b, i):
                c = call_atom(e, ("unionfind::UnionFind::union",))
                if c is not None and truth is True:
                    ok = True
            o.check(b, "emit-edge#%d" % n, st["line"], ok, "edge emitted only under subgraphs.union(a, b)==true",
                    "Kruskal emits an edge that is not dominated by the true edge of UnionFind::union: a cycle-closing edge would be emitted")
        o.check(b, "emits", b.line, n >= 1, "%d edge emission(s)" % n, "no Element::Edge emission found")
    for b in o.need_fn(facts, "«algo::min_spanning_tree::MinSpanningTreePrim as core::iter::Iterator»::next"):
        n = 0
        for i, j, st in agg_sites(b, "data::Element", "Edge"):
            n += 1
            ok = False
            for (e, truth, src) in dom_atoms(b, i):
                c = call_atom(e, ("contains",))
                if c is not None and truth is False:
                    ok = True
                # test-and-set form: `if !nodes_taken.insert(target) { continue }` (HashSet::insert is true iff newly inserted)
                c2 = call_atom(e, ("insert",))
                if c2 is not None and truth is True and "HashSet" in norm_path(c2[1]["path"]) + c2[1].get("self", ""):
                    ok = True
            o.check(b, "emit-edge#%d" % n, st["line"], ok, "edge emitted only under !nodes_taken.contains(target)",
                    "Prim emits an edge that is not dominated by the false edge of nodes_taken.contains(..)")
        o.check(b, "emits", b.line, n >= 1, "%d edge emission(s)" % n, "no Element::Edge emission found")
    o.r.floor = 14
    return o.r


def dfs_events(facts):
    o = Obl("GUARD-DFSEVENT", "dfs_visitor classifies each traversed edge by the discovered/finished state of its target (Tree: undiscovered; "
                              "Back: discovered & unfinished; CrossForward: finished), emits Discover under discovered.visit(u)==true, Finish "
                              "after finished.visit(u), recurses only into undiscovered targets, and stops as soon as a callback says break")
    VIS = ("visit::VisitMap::visit",)
    ISV = ("visit::VisitMap::is_visited",)
    for b in o.need_fn(facts, "visit::dfsvisit::dfs_visitor"):
        ev = {}
        for var in ("Discover", "TreeEdge", "BackEdge", "CrossForwardEdge", "Finish"):
            ev[var] = list(agg_sites(b, "visit::dfsvisit::DfsEvent", var))
            o.check(b, "has-" + var, b.line, len(ev[var]) >= 1, "%d constructor site(s)" % len(ev[var]), "DfsEvent::%s is never constructed" % var)
        # Discover: which map is D?
        D = None
        for i, j, st in ev["Discover"]:
            nr = named_roots(b, st["rv"]["o"][0])
            h = visit_guard(b, i, nr, True, VIS)
            o.check(b, "Discover", st["line"], bool(h), "Discover(u) dominated by discovered.visit(u)==true",
                    "Discover is emitted without the true edge of a test-and-set visit(u) dominating it")
            if h:
                D = h[0][1]
        F = None
        for i, j, st in ev["Finish"]:
            nr = named_roots(b, st["rv"]["o"][0])
            vc = [(k, t) for k, t in calls_named(b, VIS) if named_roots(b, t["args"][1]) & nr and b.dominates(k, i)
                  and (D is None or map_roots(b, t["args"][0]) != D)]
            o.check(b, "Finish", st["line"], bool(vc), "Finish(u) preceded (dominated) by finished.visit(u) on a second map",
                    "Finish is emitted without a dominating finished.visit(u) call on a map different from the discovered map")
            if vc:
                F = map_roots(b, vc[0][1]["args"][0])
        o.check(b, "two-maps", b.line, bool(D) and bool(F) and D != F, "discovered map %s, finished map %s" % (D, F), "could not identify two distinct visit maps")
        if D and F and D != F:
            def state(i, node_roots):
                d = None
                f = None
                for (c, mr, nr, src) in visit_guard(b, i, node_roots, True, ISV):
                    if mr == D:
                        d = True
                    if mr == F:
                        f = True
                for (c, mr, nr, src) in visit_guard(b, i, node_roots, False, ISV):
                    if mr == D:
                        d = False
                    if mr == F:
                        f = False
                return d, f
            want = {"TreeEdge": (False, None), "BackEdge": (True, False), "CrossForwardEdge": (True, True)}
            for var, (wd, wf) in want.items():
                for i, j, st in ev[var]:
                    vr = named_roots(b, st["rv"]["o"][1])
                    d, f = state(i, vr)
                    ok = d is wd and (wf is None or f is wf)
                    o.check(b, var, st["line"], ok, "%s(u, v) dominated by discovered(v)=%s finished(v)=%s" % (var, d, f),
                            "DfsEvent::%s is constructed where discovered.is_visited(v)=%s, finished.is_visited(v)=%s on the dominating "
                            "edges; required discovered=%s finished=%s" % (var, d, f, wd, wf))
            # recursion only into undiscovered targets
            n = 0
            for i, t in b.calls():
                if callee_name(t["f"]).endswith("visit::dfsvisit::dfs_visitor") and len(t["args"]) >= 2:
                    n += 1
                    vr = named_roots(b, t["args"][1])
                    d, f = state(i, vr)
                    o.check(b, "recurse#%d" % n, t["line"], d is False, "recursion into v dominated by !discovered.is_visited(v)",
                            "dfs_visitor recurses into a target that is not known undiscovered")
            o.check(b, "recurses", b.line, n >= 1, "%d recursive call(s)" % n, "no recursive call found")
    # break discipline: after should_break()==true nothing more is visited
    for fn in ("visit::dfsvisit::dfs_visitor", "visit::dfsvisit::depth_first_search"):
        for b in o.need_fn(facts, fn):
            n = 0
            succ, _, _ = b.cfg()
            for i, t in calls_named(b, ("should_break",)):
                tgt = t["t"][0] if t["t"] else None
                if tgt is None:
                    continue
                # the switch on the result
                sw = tgt
                tb = b.blocks[sw]["term"]
                if tb["k"] != "switch":
                    continue
                n += 1
                true_t = tb["otherwise"] if [c[0] for c in tb["cases"]] == [0] else None
                if true_t is None:
                    for c in tb["cases"]:
                        if c[0] == 1:
                            true_t = c[1]
                rs = reach(b, true_t) if true_t is not None else set()
                again = False
                for k in rs:
                    tt = b.blocks[k]["term"]
                    if tt["k"] == "call" and "path" in tt["f"]:
                        np_ = norm_path(tt["f"]["path"])
                        if np_ in ("core::ops::FnMut::call_mut", "core::ops::Fn::call", "core::ops::FnOnce::call_once") or callee_name(tt["f"]).endswith("dfs_visitor"):
                            again = True
                o.check(b, "break#%d" % n, t["line"], true_t is not None and not again, "should_break()==true leads to return without another callback",
                        "after a callback returned a break value the traversal can still reach another visitor call")
            o.check(b, "breaks", b.line, n >= 1, "%d should_break test(s)" % n, "no should_break test found")
    o.r.floor = 14
    return o.r


# ----------------------------------------------------------------------------------------------
def _is_len_of(e):
    return has_call(e, ("len",))


def unchecked(facts):
    o = Obl("GUARD-UNCHECKED", "every unchecked access (raw pointer arithmetic/deref, get_unchecked*, swap_nonoverlapping, unsafe fn call) is "
                               "dominated by the bounds / distinctness / non-overlap test that justifies it")
    # enumerate all unsafe sites so that new ones show up in the evidence
    sites = []
    for b in facts.bodies:
        if b.kind not in ("Fn", "AssocFn", "Closure") or "quickcheck" in b.file:
            continue
        for i, t in b.calls():
            if t["f"].get("unsafe") and not t.get("mexp"):
                sites.append((b, i, t))
    known_fns = set()

    def cmp_atoms(b, blk):
        return [(e, truth, src) for (e, truth, src) in dom_atoms(b, blk) if isinstance(e, tuple) and e[0] == "bin" and truth is True]

    # index_twice: ptr.add(a/b) under max(a,b) < len and a != b
    for b in o.need_fn(facts, "graph_impl::index_twice"):
        known_fns.add(b.npath)
        n = 0
        for i, t in b.calls():
            if not t["f"].get("unsafe"):
                continue
            n += 1
            at = cmp_atoms(b, i)
            inb = any(e[1] == "Lt" and has_call(e[2], ("max",)) and _is_len_of(e[3]) for (e, _, _) in at)
            dist = any(e[1] == "Ne" and roots(e[2]) and roots(e[3]) and roots(e[2]) != roots(e[3]) for (e, _, _) in at)
            o.check(b, "ptr.add#%d" % n, t["line"], inb and dist, "dominated by max(a,b) < len and a != b",
                    "raw pointer offset in index_twice is not dominated by both `max(a, b) < slc.len()` and `a != b` "
                    "(in bounds: %s, distinct: %s): two &mut to one element or out-of-bounds access" % (inb, dist))
        o.check(b, "sites", b.line, n in (0, 2), "%d raw offsets" % n, "expected 2 raw pointer offsets (or none: safe rewrite), found %d" % n)
    # index_twice_mut (Graph, StableGraph): raw deref after assert!(kinds differ || i != j)
    for sfx in ("graph_impl::Graph::index_twice_mut", "graph_impl::stable_graph::StableGraph::index_twice_mut"):
        for b in o.need_fn(facts, sfx):
            known_fns.add(b.npath)
            derefs = []
            for i, j, st in b.stmts():
                rv = st["rv"]
                if rv["k"] in ("ref", "rawptr") and rv["pl"]["p"] and rv["pl"]["p"][0] == "*" and b.lty(rv["pl"]["l"]).startswith("*mut"):
                    derefs.append((i, st))
            # the assert: a diverging panic block whose dominating atoms are (kinds Eq) and (index Eq)
            panics = []
            for i, t in b.calls():
                if not t["t"] or t["t"] == [""]:
                    if "panic" in t["f"]["path"]:
                        panics.append(i)
            okp = None
            for p in panics:
                at = cmp_atoms(b, p)
                k_eq = [src for (e, _, src) in at if e[1] == "Eq" and has_call(e[2], ("is_node_index",)) and has_call(e[3], ("is_node_index",))]
                i_eq = [src for (e, _, src) in at if e[1] == "Eq" and has_call(e[2], ("index",)) and has_call(e[3], ("index",))]
                if k_eq and i_eq:
                    okp = (p, k_eq[0], i_eq[0])
            n = 0
            for (i, st) in derefs:
                n += 1
                ok = okp is not None and b.dominates(okp[1], i) and i not in reach(b, okp[0])
                o.check(b, "raw-deref#%d" % n, st["line"], ok, "dominated by assert!(kinds differ || i != j) (panic on both-equal)",
                        "the two raw reborrows of self are not protected by the assertion that the two indices name different elements")
            o.check(b, "sites", b.line, n in (0, 2), "%d raw reborrows" % n, "expected 2 raw reborrows of self (or none: safe rewrite), found %d" % n)
    # extend_flat_square_matrix: swap_nonoverlapping under pos + old <= new_pos
    for b in o.need_fn(facts, "matrix_graph::extend_flat_square_matrix"):
        known_fns.add(b.npath)
        n = 0
        for i, t in calls_named(b, ("core::ptr::swap_nonoverlapping",)):
            n += 1
            at = cmp_atoms(b, i)
            cnt = named_roots(b, t["args"][2])
            ok = False
            for (e, _, _) in at:
                if e[1] == "Le" and isinstance(e[2], tuple):
                    lhs_r = roots_named(b, e[2])
                    rhs_r = roots_named(b, e[3])
                    # lhs = pos + count, rhs = new_pos ; the two pointer offsets must be pos and new_pos
                    if cnt & lhs_r and rhs_r and not (rhs_r <= lhs_r):
                        ok = True
            o.check(b, "swap_nonoverlapping#%d" % n, t["line"], ok, "dominated by pos + count <= new_pos with the same count",
                    "swap_nonoverlapping(old, new, n) is not dominated by `pos + n <= new_pos`: overlapping ranges are undefined behaviour")
        o.check(b, "sites", b.line, True, "%d swap_nonoverlapping call(s), each with its obligation" % n, "")
    # UnionFind: unchecked walks start from an index proven < len
    uf_entry = {"unionfind::UnionFind::try_find": ("get_unchecked",), "unionfind::UnionFind::find_mut": ("find_mut_recursive",),
                "unionfind::UnionFind::try_find_mut": ("find_mut_recursive",)}
    for sfx, callees in uf_entry.items():
        for b in o.need_fn(facts, sfx):
            known_fns.add(b.npath)
            n = 0
            for i, t in calls_named(b, callees):
                if not t["f"].get("unsafe"):
                    continue
                n += 1
                at = cmp_atoms(b, i)
                ok = any(e[1] == "Lt" and has_call(e[2], ("index",)) and ("arg", 2) in roots_named(b, e[2]) and _is_len_of(e[3]) for (e, _, _) in at)
                o.check(b, "%s#%d" % (callees[0], n), t["line"], ok, "dominated by x.index() < self.len() (early return / assert on its negation)",
                        "unchecked parent-array access in %s is not dominated by `x.index() < self.len()`" % last_seg(sfx))
            # the same guard written as `(x.index() < self.len()).then(|| unsafe { .. })`: the closure runs only when the receiver is true
            for cb in facts.with_closures(b):
                if cb is b:
                    continue
                ucalls = [(i, t) for i, t in calls_named(cb, callees) if t["f"].get("unsafe")]
                if not ucalls:
                    continue
                known_fns.add(cb.npath)
                guarded = False
                for pi, pt in b.calls():
                    if last_seg(pt["f"]["path"]) != "then" or "bool" not in norm_path(pt["f"]["path"]) or len(pt["args"]) < 2:
                        continue
                    clo = strip_casts(b.expr(pt["args"][1], 6))
                    if not (isinstance(clo, tuple) and clo[0] == "agg" and len(clo) > 1 and clo[1] == cb.path):
                        continue
                    ce = strip_casts(b.expr(pt["args"][0], 10))
                    if isinstance(ce, tuple) and ce[0] == "bin" and ce[1] in ("Lt", "Gt"):
                        lo, hi = (ce[2], ce[3]) if ce[1] == "Lt" else (ce[3], ce[2])
                        caps = set()
                        for c_ in clo[3]:
                            caps |= {x for x in leaves(c_) if x[0] == "arg"}
                        if has_call(lo, ("index",)) and ("arg", 2) in roots_named(b, lo) and _is_len_of(hi) and ("arg", 2) in roots_named(b, clo):
                            guarded = True
                for (i, t) in ucalls:
                    n += 1
                    o.check(cb, "%s#%d" % (callees[0], n), t["line"], guarded, "runs only under (x.index() < self.len()).then(..)",
                            "unchecked parent-array access in a closure of %s that is not run under `x.index() < self.len()`" % last_seg(sfx))
            o.check(b, "sites", b.line, True, "%d unchecked call(s), each with its obligation" % n, "")
    for b in o.need_fn(facts, "unionfind::UnionFind::into_labeling"):
        known_fns.add(b.npath)
        n = 0
        for i, t in b.calls():
            if not t["f"].get("unsafe") or last_seg(t["f"]["path"]) not in ("get_unchecked", "get_unchecked_mut"):
                continue
            n += 1
            e = b.expr(t["args"][1], 10)
            ok = any(isinstance(s, tuple) and s[0] == "call" and last_seg(s[1]["path"]) == "next" and "Range<usize>" in s[1].get("self", "") for s in walk_expr(e))
            # the range must be 0..self.len()
            rng = any(isinstance(s, tuple) and s[0] == "agg" and s[1].endswith("ops::Range") and len(s[3]) == 2 and _is_len_of(s[3][1]) for s in walk_expr(e))
            if not (ok and rng):
                # the same bound written as an explicit loop condition: `while ix < n` with n = self.len() / self.parent.len()
                ixr = named_roots(b, t["args"][1])
                for (ae, truth, src) in dom_atoms(b, i, named_leaf=True):
                    if isinstance(ae, tuple) and ae[0] == "bin" and ae[1] == "Lt" and truth is True and (roots_named(b, ae[2]) & ixr) and deep_has_call(b, ae[3], ("len",)):
                        ok = rng = True
            o.check(b, "%s#%d" % (last_seg(t["f"]["path"]), n), t["line"], ok and rng, "index is the loop variable of 0..self.len()",
                    "unchecked access in into_labeling is not indexed by the loop variable of `0..self.len()`")
        o.check(b, "sites", b.line, True, "%d unchecked access(es), each with its obligation" % n, "")
    for b in facts.bodies:
        if b.npath in ("unionfind::UnionFind::find_mut_recursive", "unionfind::get_unchecked", "unionfind::get_unchecked_mut"):
            known_fns.add(b.npath)
            o.check(b, "unsafe-fn", b.line, b.is_unsafe and not b.is_pub(), "private unsafe fn: precondition is the caller's (checked at each call site above)",
                    "%s must stay a private `unsafe fn` (its callers establish the bounds)" % b.npath)
    other = sorted({b.npath for (b, i, t) in sites if b.npath not in known_fns})
    # who-may-call: in unionfind.rs every unsafe call site lies in a function that carries an obligation above
    for (b, i, t) in sites:
        if b.file == "src/unionfind.rs" and b.npath not in known_fns:
            o.check(b, "uncovered-unsafe-call", t["line"], False, "",
                    "unsafe call %s in a function of unionfind.rs that has no bounds obligation: the parent array would be accessed "
                    "unchecked without a dominating index < len test" % last_seg(t["f"]["path"]))
    o.r.notes.append("unsafe call sites in the crate: %d in %d functions; functions without an obligation (listed, not reported): %s"
                     % (len(sites), len({b.npath for (b, _, _) in sites}), other))
    o.r.floor = 10
    return o.r


def roots_named(b, e):
    """roots of an already-built expression, re-expressed through named variables where possible"""
    out = set()
    for s in walk_expr(e):
        if isinstance(s, tuple) and s[0] in ("arg", "local"):
            out.add((s[0], s[1]))
        if isinstance(s, tuple) and s[0] == "place":
            for x in s[2]:
                if isinstance(x, tuple) and x[0] == "ix":
                    out.add(("local", x[1]))
    return out


# ----------------------------------------------------------------------------------------------
def limit(facts):
    """index-type limit: a fallible constructor never lets `end()` name a live slot"""
    o = Obl("GUARD-LIMIT", "in every fallible element constructor (Graph/StableGraph/MatrixGraph try_add_*) the push of a new slot is "
                           "unreachable from the limit-error exit and dominated by the test `max().index() == !0 || end() != new_index`, "
                           "with new_index derived from the length of the vector being pushed")
    targets = [("graph_impl::Graph::try_add_node", "nodes"), ("graph_impl::Graph::try_add_edge", "edges"),
               ("graph_impl::stable_graph::StableGraph::try_add_edge", "edges"), ("matrix_graph::MatrixGraph::try_add_node", "nodes")]
    for (sfx, field) in targets:
        for b in o.need_fn(facts, sfx):
            sinks = []
            for i, t in b.calls():
                nm = last_seg(t["f"]["path"])
                if nm in ("push", "add") and t["args"] and ("field", field) in leaves(b.expr(t["args"][0], 8)):
                    if nm == "add" and not callee_name(t["f"]).endswith("IdStorage::add"):
                        continue
                    sinks.append((i, t))
            o.check(b, "has-push", b.line, len(sinks) >= 1, "%d push site(s) on .%s" % (len(sinks), field), "no push onto .%s found" % field)
            # the limit error exit(s)
            exits = []
            for i, j, st in b.stmts():
                rv = st["rv"]
                # Err(..IxLimit) built anywhere in the body (directly into the return place, or into a temporary that `?` propagates)
                if not st["lhs"]["p"] and rv["k"] == "agg" and rv["variant"] == "Err" and rv["o"]:
                    e = b.expr(rv["o"][0], 3)
                    if e[0] == "agg" and e[2].endswith("IxLimit"):
                        exits.append((i, st))
            good_exit = None
            for (xi, st) in exits:
                at = [(e, truth, src) for (e, truth, src) in dom_atoms(b, xi) if isinstance(e, tuple) and e[0] == "bin" and truth is True]
                usz = [src for (e, _, src) in at if e[1] == "Ne" and has_call(e[2], ("max",)) and isinstance(e[3], tuple)
                       and (e[3][0] == "const" or (e[3][0] == "un" and e[3][1] == "Not" and e[3][2][0] == "const"))]
                # the reserved index: NodeIndex::end() / EdgeIndex::end(), or <Ix as IndexType>::max() itself (end() is max() wrapped)
                def is_endval(x):
                    return has_call(x, ("end",)) or (has_call(x, ("max",)) and not has_call(x, ("len",)))
                eqs = [(src, e) for (e, _, src) in at if e[1] == "Eq" and (is_endval(e[2]) != is_endval(e[3]))]
                if usz and eqs:
                    other = eqs[0][1][3] if is_endval(eqs[0][1][2]) else eqs[0][1][2]
                    from_len = has_call(other, ("len",)) and ("field", field) in leaves(other)
                    good_exit = (xi, usz[0], from_len)
            o.check(b, "limit-exit", b.line, good_exit is not None, "Err(..IxLimit) exit dominated by max()!=!0 and end()==new_index",
                    "no Err(..IxLimit) exit guarded by `max().index() != !0 && end() == new_index` found")
            if good_exit is not None and "stable_graph" in sfx:
                # a StableGraph at full physical length can still reuse a vacant slot: the limit error needs an empty free list
                fl = False
                for (e, truth, src) in dom_atoms(b, good_exit[0], named_leaf=True):
                    s_ = str(e)
                    if ("free_edge" in s_ or "free_node" in s_) and isinstance(e, tuple) and e[0] == "bin" and e[1] in ("Eq", "Ne"):
                        fl = True
                    if isinstance(e, tuple) and e[0] in ("local", "arg") and b.lname(e[1]) in ("reuse_vacant",):
                        fl = True
                if not fl:
                    for (src, tgt, label) in b.dominating_edges(good_exit[0]):
                        de = b.expr(b.blocks[src]["term"]["d"], 8)
                        if "free_edge" in str(de) or "free_node" in str(de):
                            fl = True
                o.check(b, "limit-needs-empty-freelist", b.line, fl, "the IxLimit error is only reachable when the free list is empty",
                        "the index-type limit error is reachable although a vacant slot is on the free list: a u8 StableGraph whose edge array is "
                        "full but has a vacancy could never take another edge")
            if good_exit is not None:
                o.check(b, "index-from-len", b.line, good_exit[2], "new_index = <Ix>::new(self.%s.len())" % field,
                        "the index compared with end() does not derive from self.%s.len()" % field)
                n = 0
                for (i, t) in sinks:
                    n += 1
                    ok = b.dominates_assuming(good_exit[1], i) and i not in reach(b, good_exit[0])
                    o.check(b, "push#%d" % n, t["line"], ok, "push dominated by the limit test and unreachable from the limit-error exit",
                            "a slot is pushed on a path that does not pass the index-type limit test: the `end()` sentinel could name a live slot")
    o.r.floor = 12
    return o.r


def sibling_bounds(facts):
    """adj::List: every insertion of a successor checks the target against the node count, like its sibling"""
    o = Obl("GUARD-SIBLING", "every push of a successor entry WSuc{suc: b, ..} into an adj::List row is dominated by the bounds test "
                             "`b.index() < self.suc.len()` (the sibling insert paths agree on their argument checks)")
    n = 0
    for b in facts.bodies:
        if b.file != "src/adj.rs" or b.kind not in ("Fn", "AssocFn", "Closure"):
            continue
        for i, t in b.calls():
            if last_seg(t["f"]["path"]) != "push" or len(t["args"]) < 2:
                continue
            e = b.expr(t["args"][1], 6)
            if not (e[0] == "agg" and e[1].endswith("adj::WSuc")):
                continue
            n += 1
            suc_roots = {x for x in leaves(b.expr(t["args"][1], 6, named_leaf=True)) if x[0] in ("arg", "local")}
            ok = False
            for (ae, truth, src) in dom_atoms(b, i):
                if isinstance(ae, tuple) and ae[0] == "bin" and truth is True and ae[1] == "Lt" and has_call(ae[2], ("index",)) and has_call(ae[3], ("len",)):
                    if roots_named(b, ae[2]) & suc_roots and ("field", "suc") in leaves(ae[3]):
                        ok = True
            # or: the insertion is delegated to a sibling that checks (call of List::add_edge)
            o.check(b, "push-WSuc#%d" % n, t["line"], ok, "dominated by target.index() < self.suc.len()",
                    "a successor entry is pushed without the target bounds test `b.index() < self.suc.len()` that the sibling "
                    "insert path performs: an edge to a non-existent node is accepted")
    o.r.floor = 1
    return o.r


# ----------------------------------------------------------------------------------------------
def graphmap_lockstep(facts):
    """GraphMap keeps two maps: the adjacency lists in `nodes` and the weights in `edges`"""
    o = Obl("GUARD-GRAPHMAP", "GraphMap: a mutation of the edge map (`edges`) is never control-dependent on the outcome of an adjacency-list update "
                              "(remove_single_edge / Vec::swap_remove on a row): the two maps are updated independently for every affected entry; "
                              "add_edge pushes the Outgoing entry at a and the Incoming mirror at b only under a != b; remove_edge removes both "
                              "entries under the same a != b test")
    n = 0
    for root in facts.bodies:
        if root.file != "src/graphmap.rs" or root.kind not in ("AssocFn", "Fn"):
            continue
        if not root.impl_selfhead.endswith("graphmap::GraphMap"):
            continue
        for b in facts.with_closures(root):
            for i, t in b.calls():
                f = t["f"]
                nm = last_seg(f["path"])
                if f.get("crate") != "indexmap" or nm not in ("insert", "swap_remove", "shift_remove", "insert_full", "swap_remove_full", "shift_remove_full"):
                    continue
                l = op_local(t["args"][0]) if t["args"] else None
                if l is None or "IndexMap<(" not in b.lty(l):
                    continue
                n += 1
                dep = []
                for (e, truth, src) in dom_atoms(b, i):
                    for s in walk_expr(e):
                        if isinstance(s, tuple) and s[0] == "call" and (callee_name(s[1]).endswith("GraphMap::remove_single_edge")
                                                                        or (last_seg(s[1]["path"]) in ("swap_remove", "position") and "Vec" in norm_path(s[1]["path"]))):
                            dep.append(last_seg(callee_name(s[1])))
                o.check(b, "edges.%s#%d" % (nm, n), t["line"], not dep, "edge-map update not conditional on an adjacency-list update",
                        "the edge map is only updated if the adjacency-list update (%s) reported success: for a self-loop of a node under removal the "
                        "row is already gone, so the edge value would stay behind" % ", ".join(sorted(set(dep))))
    # add_edge / remove_edge mirror discipline
    for b in o.need_fn(facts, "graphmap::GraphMap::add_edge"):
        pushes = []
        for i, t in b.calls():
            if last_seg(t["f"]["path"]) == "push" and len(t["args"]) >= 2:
                e = b.expr(t["args"][1], 5)
                if e[0] == "agg" and len(e[3]) == 2 and isinstance(e[3][1], tuple) and e[3][1][0] == "enum":
                    pushes.append((i, t, e[3][1][2]))
                elif e[0] == "agg" and len(e[3]) == 2:
                    d = e[3][1]
                    nm = d[2] if isinstance(d, tuple) and len(d) > 2 else str(d)
                    pushes.append((i, t, str(nm)))
        dirs = sorted(p[2] for p in pushes)
        o.check(b, "mirror-pushes", b.line, dirs == ["Incoming", "Outgoing"], "pushes one Outgoing and one Incoming entry",
                "add_edge must push exactly one (b, Outgoing) entry and one (a, Incoming) mirror entry; found %s" % dirs)
        for (i, t, d) in pushes:
            if d == "Incoming":
                ok = any(isinstance(e, tuple) and e[0] == "bin" and e[1] == "Ne" and truth is True for (e, truth, src) in dom_atoms(b, i))
                o.check(b, "incoming-under-ne", t["line"], ok, "Incoming mirror pushed only under a != b (a self-loop is stored once)",
                        "the Incoming mirror entry is pushed without the a != b test: a self-loop would be listed twice")
    for b in o.need_fn(facts, "graphmap::GraphMap::remove_edge"):
        rs = [(i, t) for i, t in b.calls() if callee_name(t["f"]).endswith("GraphMap::remove_single_edge")]
        o.check(b, "two-removals", b.line, len(rs) == 2, "removes the Outgoing entry and the Incoming mirror", "expected 2 remove_single_edge calls, found %d" % len(rs))
        guarded = [any(isinstance(e, tuple) and e[0] == "bin" and e[1] == "Ne" and truth is True for (e, truth, src) in dom_atoms(b, i)) for (i, t) in rs]
        o.check(b, "mirror-under-ne", b.line, sorted(guarded) == [False, True], "exactly the mirror removal is under a != b",
                "remove_edge must remove the mirror entry exactly when a != b (as add_edge inserted it); guards found: %s" % guarded)
    o.r.floor = 7
    return o.r


def matrix_order(facts):
    o = Obl("FLOW-MATRIX", "MatrixGraph::remove_node clears the row and the column of the node while its id is still live: the id is released "
                           "(IdStorage::remove) only after the clearing loop over iter_ids(), so the (a, a) cell is visited too")
    for b in o.need_fn(facts, "matrix_graph::MatrixGraph::remove_node"):
        it = [i for i, t in b.calls() if callee_name(t["f"]).endswith("IdStorage::iter_ids")]
        rm = [i for i, t in b.calls() if callee_name(t["f"]).endswith("IdStorage::remove")]
        o.check(b, "has-both", b.line, bool(it) and bool(rm), "clearing loop over iter_ids() and IdStorage::remove found", "iter_ids()/IdStorage::remove not found")
        if it and rm:
            bad = [r_ for r_ in rm if any(b.dominates(r_, i) for i in it)]
            o.check(b, "release-after-clear", b.line, not bad, "the id is released after the clearing loop",
                    "the node id is released before the loop that clears its row/column: iter_ids() no longer yields it, so its self-loop "
                    "cell (a, a) is never cleared and survives into the next node that reuses the id")
    o.r.floor = 2
    return o.r


def id_iterator(facts):
    o = Obl("FLOW-IDITER", "MatrixGraph's IdIterator skips removed ids in a LOOP (several adjacent removed ids are all skipped) and yields an id only under "
                           "id < upper_bound")
    for b in o.need_fn(facts, "«matrix_graph::IdIterator as core::iter::Iterator»::next"):
        succ = b.cfg()[0]
        n = 0
        for i, t in b.calls():
            if last_seg(t["f"]["path"]) == "contains" and "IndexSet" in norm_path(t["f"]["path"]):
                n += 1
                inloop = i in reach(b, succ[i][0]) if succ[i] else False
                o.check(b, "skip-loop#%d" % n, t["line"], inloop, "the removed-id test is re-evaluated after each skip (loop)",
                        "the removed-id test is evaluated once only: with two adjacent removed ids the second one is yielded as if it were live")
        o.check(b, "has-skip", b.line, n >= 1, "%d removed-id test(s)" % n, "no removed_ids.contains test found")
        k = 0
        for i, j, st in return_some_sites(b):
            k += 1
            ok = any(isinstance(e, tuple) and e[0] == "bin" and e[1] == "Lt" and truth is True and ("field", "upper_bound") in leaves(e[3])
                     for (e, truth, src) in dom_atoms(b, i))
            o.check(b, "yield#%d" % k, st["line"], ok, "yields only under id < upper_bound", "an id is yielded without the `< upper_bound` test")
    o.r.floor = 3
    return o.r
