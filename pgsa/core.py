"""Fact loader and generic program-analysis utilities over the exported MIR facts.

Nothing here executes petgraph code; everything is CFG / dominator / def-use reasoning over the
JSON facts written by /verif/driver.
"""
import json
import re
from collections import defaultdict


def op_place(o):
    for k in ("copy", "move"):
        if k in o:
            return o[k]
    return None


def op_local(o):
    p = op_place(o)
    return p["l"] if p is not None else None


def op_const(o):
    if "const" in o:
        return o["const"]
    return None


def op_fn(o):
    """def-path when the operand is a fn item / closure constant"""
    if "fn" in o:
        return o["fn"]
    if "closure" in o:
        return o["closure"]
    return None


def strip_ref(ty):
    """strip leading references from a debug type string"""
    t = ty
    while True:
        t2 = re.sub(r"^&'[^ ]+ (mut )?", "", t)
        t2 = re.sub(r"^&(mut )?", "", t2)
        if t2 == t:
            return t
        t = t2


def is_mut_ref_ty(ty):
    return ty.startswith("&'{erased} mut ") or ty.startswith("&mut ")


def is_ref_ty(ty):
    return ty.startswith("&")


def norm_path(path):
    """def path with generic argument lists removed, `<T as Trait>` qualifiers kept:
    graph_impl::Graph::<N, E>::add -> graph_impl::Graph::add
    <graph_impl::Graph<N, E> as data::Build>::add_node -> «graph_impl::Graph as data::Build»::add_node"""
    p = path
    for _ in range(12):
        m = None
        for m_ in re.finditer(r"<[^<>]*>", p):
            m = m_
            break
        if m is None:
            break
        inner = m.group(0)[1:-1]
        if " as " in inner or inner.startswith("impl "):
            rep = "\u00ab" + inner + "\u00bb"
            p = p[:m.start()] + rep + p[m.end():]
        else:
            st = m.start()
            if p[max(0, st - 2):st] == "::":
                st -= 2
            p = p[:st] + p[m.end():]
    return p


def last_seg(path):
    """last path segment without generic args: a::B::<T>::foo -> foo"""
    p = norm_path(path)
    depth = 0
    last = 0
    i = 0
    while i < len(p):
        c = p[i]
        if c == "\u00ab":
            depth += 1
        elif c == "\u00bb":
            depth -= 1
        elif depth == 0 and p.startswith("::", i):
            last = i + 2
            i += 1
        i += 1
    return p[last:]


_STD_VARIANTS = {"core::option::Option": {"None": 0, "Some": 1}, "core::result::Result": {"Ok": 0, "Err": 1},
                 "core::ops::ControlFlow": {"Continue": 0, "Break": 1}, "core::ops::control_flow::ControlFlow": {"Continue": 0, "Break": 1}}


class Body:
    def __init__(self, d, facts):
        self.d = d
        self.facts = facts
        self.path = d["path"]
        self.npath = norm_path(d["path"])
        self.kind = d["kind"]
        self.file = d["file"]
        self.line = d["line"]
        self.root = d["root"]
        self.vis = d.get("vis", "")
        self.macro = d.get("macro", "")
        self.exp = d.get("exp", False)
        self.is_unsafe = d.get("unsafe", False)
        self.impl_self = d.get("impl_self", "")
        self.impl_selfhead = d.get("impl_selfhead", "")
        self.impl_trait = d.get("impl_trait", "")
        self.preds = [tuple(p) for p in d["preds"]]
        self.argc = d["argc"]
        self.locals = d["locals"]
        self.blocks = d["blocks"]
        self._cfg = None
        self._cfg_pre = None
        self._defs = None
        self._dom = None
        self._edom = None

    @property
    def name(self):
        return last_seg(self.path)

    def is_pub(self):
        return self.vis == "Public"

    def lty(self, l):
        return self.locals[l]["ty"]

    def lname(self, l):
        return self.locals[l]["name"]

    def loc(self, line=None):
        return "%s:%d" % (self.file, line if line else self.line)

    # ------------------------------------------------------------------ CFG
    def cfg(self):
        """successor lists over non-cleanup blocks; constant switch discriminants are pruned."""
        if self._cfg is not None:
            return self._cfg
        n = len(self.blocks)
        # structural pre-CFG (no pruning): used by reaching_def while the pruned CFG is being built
        succ0 = [[] for _ in range(n)]
        for i, bl in enumerate(self.blocks):
            if bl["cleanup"]:
                continue
            t = bl["term"]
            if t["k"] == "switch":
                succ0[i] = list(dict.fromkeys([c[1] for c in t["cases"]] + [t["otherwise"]]))
            elif t["k"] in ("goto", "drop", "assert", "call"):
                succ0[i] = [int(x) for x in t.get("t", []) if x != ""]
            succ0[i] = [x for x in succ0[i] if not self.blocks[x]["cleanup"]]
        pred0 = [[] for _ in range(n)]
        for i, ss in enumerate(succ0):
            for x in ss:
                pred0[x].append(i)
        self._cfg_pre = (succ0, pred0)
        succ = [[] for _ in range(n)]
        for i, bl in enumerate(self.blocks):
            if bl["cleanup"]:
                continue
            t = bl["term"]
            k = t["k"]
            if k == "switch":
                c = op_const(t["d"])
                if c is None and op_local(t["d"]) is not None and len([x for x in self.defs().get(op_local(t["d"]), []) if x[0] != "pst"]) > 1:
                    # a bool that is set on several paths (an inlined helper's result): use the definition that reaches this block
                    try:
                        ce = self.expr_at(t["d"], i, None, 6)
                    except RecursionError:
                        ce = None
                    if isinstance(ce, tuple) and ce[0] == "const":
                        c = ce[1]
                if c is not None and re.fullmatch(r"\d+", c) or c in ("true", "false"):
                    v = {"true": 1, "false": 0}.get(c)
                    if v is None:
                        v = int(c)
                    tgt = None
                    for (cv, cb) in t["cases"]:
                        if int(cv) == v:
                            tgt = cb
                    if tgt is None:
                        tgt = t["otherwise"]
                    succ[i] = [tgt]
                else:
                    ss = [c[1] for c in t["cases"]] + [t["otherwise"]]
                    # `Err(e)?` / `None?`: Try::branch of a value just built as Err/None always breaks
                    fixed = self._known_branch(t, i)
                    if fixed is not None:
                        tgt = t["otherwise"]
                        for (cv, cb) in t["cases"]:
                            if int(cv) == fixed:
                                tgt = cb
                        ss = [tgt]
                    succ[i] = list(dict.fromkeys(ss))
            elif k in ("goto", "drop", "assert", "call"):
                succ[i] = [int(x) for x in t.get("t", []) if x != ""]
            elif k == "other":
                # FalseEdge / FalseUnwind etc. do not survive to optimized MIR; yield/inline asm absent
                succ[i] = []
            succ[i] = [s for s in succ[i] if not self.blocks[s]["cleanup"]]
        pred = [[] for _ in range(n)]
        for i, ss in enumerate(succ):
            for s in ss:
                pred[s].append(i)
        reach = set()
        st = [0]
        while st:
            x = st.pop()
            if x in reach:
                continue
            reach.add(x)
            st.extend(succ[x])
        # predecessors that cannot be reached themselves (the original continuation of an inlined call, pruned arms) are no predecessors
        pred = [[p_ for p_ in ps if p_ in reach] for ps in pred]
        self._cfg = (succ, pred, reach)
        return self._cfg

    def _known_branch(self, t, blk=None):
        """discriminant value of ControlFlow when the switch tests Try::branch(<Err(..) | None | Ok(..) | Some(..)> literal)"""
        try:
            e = self.expr(t["d"], 5)
            if e[0] == "local" and blk is not None and self._cfg_pre is not None:
                e = self.expr_at(t["d"], blk, None, 6)
        except RecursionError:
            return None
        if e[0] != "discr":
            return None
        c = e[1]
        if isinstance(c, tuple) and c[0] == "agg" and c[1] in _STD_VARIANTS and c[2] in _STD_VARIANTS[c[1]]:
            # `match helper() { Some(..) => .. }` after inlining: the value was just built as a literal variant on this path
            return _STD_VARIANTS[c[1]][c[2]]
        if not (isinstance(c, tuple) and c[0] == "call" and norm_path(c[1]["path"]) == "core::ops::Try::branch" and c[2]):
            return None
        a = c[2][0]
        if isinstance(a, tuple) and a[0] == "agg" and a[1] in ("core::result::Result", "core::option::Option"):
            return 1 if a[2] in ("Err", "None") else 0
        return None

    def switch_edges(self, i):
        """[(value or 'otherwise', target)] for a switch block (after constant pruning: [])."""
        t = self.blocks[i]["term"]
        if t["k"] != "switch":
            return []
        return [(int(c[0]), c[1]) for c in t["cases"]] + [("otherwise", t["otherwise"])]

    def rpo(self):
        succ, pred, reach = self.cfg()
        seen = set()
        order = []
        stack = [(0, iter(succ[0]))]
        seen.add(0)
        while stack:
            node, it = stack[-1]
            adv = False
            for s in it:
                if s not in seen:
                    seen.add(s)
                    stack.append((s, iter(succ[s])))
                    adv = True
                    break
            if not adv:
                order.append(node)
                stack.pop()
        order.reverse()
        return order

    def dominators(self):
        """idom over an *edge-split* graph: nodes are block ids (int) and ('e', src, k) for the k-th
        outgoing edge of every block with >1 successor. Returns dict node -> idom node."""
        if self._dom is not None:
            return self._dom
        succ, pred, reach = self.cfg()
        gs = defaultdict(list)
        for i in reach:
            ss = succ[i]
            if len(ss) > 1:
                for k, s in enumerate(ss):
                    e = ("e", i, k)
                    gs[i].append(e)
                    gs[e].append(s)
            else:
                for s in ss:
                    gs[i].append(s)
        gp = defaultdict(list)
        for a, bs in gs.items():
            for b in bs:
                gp[b].append(a)
        # RPO
        order = []
        seen = {0}
        stack = [(0, iter(gs[0]))]
        while stack:
            node, it = stack[-1]
            adv = False
            for s in it:
                if s not in seen:
                    seen.add(s)
                    stack.append((s, iter(gs[s])))
                    adv = True
                    break
            if not adv:
                order.append(node)
                stack.pop()
        order.reverse()
        idx = {n: i for i, n in enumerate(order)}
        idom = {0: 0}
        changed = True
        while changed:
            changed = False
            for n in order[1:]:
                ps = [p for p in gp[n] if p in idom]
                if not ps:
                    continue
                new = ps[0]
                for p in ps[1:]:
                    a, b = p, new
                    while a != b:
                        while idx[a] > idx[b]:
                            a = idom[a]
                        while idx[b] > idx[a]:
                            b = idom[b]
                    new = a
                if idom.get(n) != new:
                    idom[n] = new
                    changed = True
        self._dom = (idom, gs)
        return self._dom

    def dom_chain(self, blk):
        """all dominators of block blk (including itself), nearest first; includes edge nodes"""
        idom, _ = self.dominators()
        out = []
        n = blk
        if n not in idom:
            return out
        while True:
            out.append(n)
            if n == 0:
                break
            n = idom[n]
        return out

    def dominates(self, a, b):
        return a in self.dom_chain(b)

    def dominating_edges(self, blk):
        """[(switch_block, target_block, label)] for conditional edges that dominate blk.
        label is the switch value (int) or 'otherwise' for switches; for other multi-successor
        terminators it is the successor position."""
        succ, _, _ = self.cfg()
        out = []
        for n in self.dom_chain(blk):
            if isinstance(n, tuple):
                _, src, k = n
                tgt = succ[src][k]
                t = self.blocks[src]["term"]
                label = k
                if t["k"] == "switch":
                    label = None
                    for (v, b) in self.switch_edges(src):
                        if b == tgt:
                            # several values may go to the same target; collect all
                            label = v if label is None else (label if isinstance(label, tuple) else (label,)) + (v,)
                out.append((src, tgt, label))
        return out

    # ------------------------------------------------ correlated branches
    def _switch_local(self, blk):
        """the single-definition local a switch tests (through plain copies), or None"""
        t = self.blocks[blk]["term"]
        if t["k"] != "switch":
            return None
        l = op_local(t["d"])
        if l is None or (op_place(t["d"]) or {}).get("p"):
            return None
        for _ in range(6):
            sd = self.single_def(l)
            if sd is None:
                return None
            if sd[0] == "st":
                rv = self.blocks[sd[1]]["st"][sd[2]]["rv"]
                if rv["k"] == "use" and op_local(rv["o"][0]) is not None and not op_place(rv["o"][0])["p"]:
                    l = op_local(rv["o"][0])
                    continue
                if rv["k"] == "discr" and not rv["pl"]["p"] and self._never_borrowed_mut(rv["pl"]["l"]):
                    # `match x { .. }` twice on the same never-reassigned, never mutably borrowed enum local: both switches see the same variant
                    l = rv["pl"]["l"]
                    continue
            return (l, sd)
        return None

    def _never_borrowed_mut(self, l):
        for i, j, st in self.stmts():
            rv = st["rv"]
            if rv["k"] in ("ref", "rawptr") and rv.get("mut") and rv["pl"]["l"] == l:
                return False
            if st["lhs"]["l"] == l and st["lhs"]["p"]:
                return False
        return True

    def correlated_exclusions(self, blk):
        """edges (src, tgt) that cannot be taken on any path reaching blk, because blk is dominated by an edge of another
        switch that tests the same immutable local with a different outcome. The local must be defined once, outside any
        loop, so that both switches observe the same value."""
        succ, _, _ = self.cfg()
        out = set()
        sw = {}
        for i in range(len(self.blocks)):
            sl = self._switch_local(i)
            if sl is not None:
                sw.setdefault(sl[0], []).append((i, sl[1]))
        for (src, tgt, label) in self.dominating_edges(blk):
            sl = self._switch_local(src)
            if sl is None:
                continue
            l, sd = sl
            defblk = sd[1]
            if defblk in self._reach_from(succ, succ[defblk]):
                continue     # defined inside a loop
            for (other, _) in sw.get(l, []):
                if other == src:
                    continue
                for (v, t2) in self.switch_edges(other):
                    same = (v == label) or (isinstance(label, tuple) and v in label)
                    if not same and t2 != self._edge_target(other, label):
                        out.add((other, t2))
        return out

    def _edge_target(self, blk, label):
        for (v, t2) in self.switch_edges(blk):
            if v == label:
                return t2
        return None

    @staticmethod
    def _reach_from(succ, starts):
        seen = set()
        st = list(starts)
        while st:
            x = st.pop()
            if x in seen:
                continue
            seen.add(x)
            st.extend(succ[x])
        return seen

    def dominates_assuming(self, a, blk):
        """does block a dominate blk on all *feasible* paths (branches correlated with blk's dominating edges removed)?"""
        if self.dominates(a, blk):
            return True
        succ, _, _ = self.cfg()
        excl = self.correlated_exclusions(blk)
        seen = set()
        st = [0]
        while st:
            x = st.pop()
            if x in seen or x == a:
                continue
            seen.add(x)
            for s2 in succ[x]:
                if (x, s2) in excl:
                    continue
                st.append(s2)
        return blk not in seen

    # ------------------------------------------------------------- def-use
    def defs(self):
        """local -> list of definition sites: ('st', blk, idx) | ('call', blk) | ('arg',)"""
        if self._defs is not None:
            return self._defs
        d = defaultdict(list)
        for l in range(1, self.argc + 1):
            d[l].append(("arg",))
        for i, bl in enumerate(self.blocks):
            if bl["cleanup"]:
                continue
            for j, st in enumerate(bl["st"]):
                if not st["lhs"]["p"]:
                    d[st["lhs"]["l"]].append(("st", i, j))
                else:
                    d[st["lhs"]["l"]].append(("pst", i, j))
            t = bl["term"]
            if t["k"] == "call" and not t["dest"]["p"]:
                d[t["dest"]["l"]].append(("call", i))
        self._defs = d
        return d

    def single_def(self, l):
        ds = [x for x in self.defs().get(l, []) if x[0] != "pst"]
        if len(ds) == 1 and not any(x[0] == "pst" for x in self.defs().get(l, [])):
            return ds[0]
        if len(ds) == 1:
            return ds[0]
        return None

    def reaching_def(self, blk, idx, l):
        """the definition of local l that reaches position idx of block blk when it can be found by walking backwards through the block
        and then through unique-predecessor chains: ('st', blk, idx) | ('call', blk) | None"""
        seen = 0
        while seen < 12:
            sts = self.blocks[blk]["st"]
            for j in range(min(idx, len(sts)) - 1, -1, -1):
                if sts[j]["lhs"]["l"] == l:
                    return ("st", blk, j) if not sts[j]["lhs"]["p"] else None
            preds = (self._cfg[1] if self._cfg is not None else (self._cfg_pre or self.cfg() and self._cfg_pre)[1])[blk]
            if len(preds) != 1:
                return None
            p_ = preds[0]
            t = self.blocks[p_]["term"]
            if t["k"] == "call" and t["dest"]["l"] == l:
                return ("call", p_) if not t["dest"]["p"] else None
            blk, idx = p_, len(self.blocks[p_]["st"])
            seen += 1
        return None

    def expr_at(self, o, blk, idx=None, depth=8, named_leaf=False):
        """expr(), but locals with several definitions are resolved through the definition that reaches (blk, idx)"""
        if idx is None:
            idx = len(self.blocks[blk]["st"])
        p = op_place(o)
        if p is None:
            return self.expr(o, depth, named_leaf)
        base = self._local_at(p["l"], blk, idx, depth, named_leaf)
        if p["p"]:
            return ("place", base, tuple(_projkey(x) for x in p["p"]))
        return base

    def _local_at(self, l, blk, idx, depth, named_leaf):
        if depth <= 0:
            return ("local", l)
        ds = [x for x in self.defs().get(l, []) if x[0] != "pst"]
        if len(ds) <= 1:
            return self.local_expr(l, depth, named_leaf)
        rd = self.reaching_def(blk, idx, l)
        if rd is None:
            return ("local", l)
        if rd[0] == "call":
            t = self.blocks[rd[1]]["term"]
            return ("call", t["f"], [self.expr_at(a, rd[1], None, depth - 1, named_leaf) for a in t["args"]], rd[1])
        st = self.blocks[rd[1]]["st"][rd[2]]
        rv = st["rv"]
        k = rv["k"]
        at = (rd[1], rd[2])
        if k == "use":
            return self.expr_at(rv["o"][0], at[0], at[1], depth - 1, named_leaf)
        if k == "cast":
            return ("cast", self.expr_at(rv["o"][0], at[0], at[1], depth - 1, named_leaf), rv.get("ty", ""))
        if k == "bin":
            return ("bin", rv["op"], self.expr_at(rv["o"][0], at[0], at[1], depth - 1, named_leaf), self.expr_at(rv["o"][1], at[0], at[1], depth - 1, named_leaf))
        if k == "un":
            return ("un", rv["op"], self.expr_at(rv["o"][0], at[0], at[1], depth - 1, named_leaf))
        if k in ("ref", "rawptr"):
            return ("ref", rv["mut"], self.expr_at({"copy": rv["pl"]}, at[0], at[1], depth - 1, named_leaf))
        if k == "discr":
            return ("discr", self.expr_at({"copy": rv["pl"]}, at[0], at[1], depth - 1, named_leaf))
        if k == "agg":
            return ("agg", rv["name"], rv["variant"], [self.expr_at(x, at[0], at[1], depth - 1, named_leaf) for x in rv["o"]])
        return ("local", l)

    def expr(self, o, depth=6, named_leaf=False):
        """back-trace an operand to an expression tree through single-definition temporaries.
        Nodes: ('const', v, ty) ('fn', path) ('arg', n) ('local', l)  ('place', base_expr, proj)
        ('call', callee_dict, [args], blk) ('bin', op, a, b) ('un', op, a) ('ref', mut, e)
        ('cast', e, ty) ('discr', e) ('agg', name, variant, [ops]) ('use', e)"""
        if "const" in o:
            return ("const", o["const"], o.get("ty", ""))
        if "fn" in o:
            return ("fn", o["fn"])
        if "closure" in o:
            return ("fn", o["closure"])
        p = op_place(o)
        if p is None:
            return ("unknown",)
        return self.place_expr(p, depth, named_leaf)

    def place_expr(self, p, depth=6, named_leaf=False):
        base = self.local_expr(p["l"], depth, named_leaf)
        if p["p"]:
            return ("place", base, tuple(_projkey(x) for x in p["p"]))
        return base

    def local_expr(self, l, depth=6, named_leaf=False):
        if depth <= 0:
            return ("local", l)
        if named_leaf and self.lname(l):
            return ("arg", l) if 1 <= l <= self.argc else ("local", l)
        nl = named_leaf
        if 1 <= l <= self.argc:
            ds = self.defs().get(l, [])
            if len(ds) == 1:
                return ("arg", l)
        if self.lname(l):
            # user variable: leaf unless single def (let x = ...;)
            sd = self.single_def(l)
            if sd is None or sd[0] == "arg":
                return ("local", l) if not (1 <= l <= self.argc) else ("arg", l)
        sd = self.single_def(l)
        if sd is None:
            return ("local", l)
        if sd[0] == "arg":
            return ("arg", l)
        if sd[0] == "call":
            t = self.blocks[sd[1]]["term"]
            return ("call", t["f"], [self.expr(a, depth - 1, nl) for a in t["args"]], sd[1])
        st = self.blocks[sd[1]]["st"][sd[2]]
        rv = st["rv"]
        k = rv["k"]
        if k == "use":
            return self.expr(rv["o"][0], depth - 1, nl)
        if k == "cast":
            return ("cast", self.expr(rv["o"][0], depth - 1, nl), rv.get("ty", ""))
        if k == "bin":
            return ("bin", rv["op"], self.expr(rv["o"][0], depth - 1, nl), self.expr(rv["o"][1], depth - 1, nl))
        if k == "un":
            return ("un", rv["op"], self.expr(rv["o"][0], depth - 1, nl))
        if k in ("ref", "rawptr"):
            return ("ref", rv["mut"], self.place_expr(rv["pl"], depth - 1, nl))
        if k == "discr":
            return ("discr", self.place_expr(rv["pl"], depth - 1, nl))
        if k == "agg":
            return ("agg", rv["name"], rv["variant"], [self.expr(x, depth - 1, nl) for x in rv["o"]])
        if k == "repeat":
            return ("repeat", self.expr(rv["o"][0], depth - 1, nl))
        return ("other", rv.get("dbg", ""))

    def calls(self):
        """iterate (blk_index, term) over direct calls in non-cleanup reachable blocks"""
        _, _, reach = self.cfg()
        for i, bl in enumerate(self.blocks):
            if bl["cleanup"] or i not in reach:
                continue
            t = bl["term"]
            if t["k"] == "call" and "path" in t["f"]:
                yield i, t

    def stmts(self):
        _, _, reach = self.cfg()
        for i, bl in enumerate(self.blocks):
            if bl["cleanup"] or i not in reach:
                continue
            for j, st in enumerate(bl["st"]):
                yield i, j, st


def _projkey(x):
    if isinstance(x, dict):
        if "f" in x:
            return ("f", x["f"], x.get("n", ""), x.get("a", ""))
        (k, v), = x.items()
        return (k, v)
    return x


def proj_fields(proj):
    """field names along a raw projection list (derefs/indexing dropped)"""
    return [x.get("n", "#%d" % x["f"]) for x in proj if isinstance(x, dict) and "f" in x]


def proj_has_deref(proj):
    return any(x == "*" for x in proj)


def place_str(b, p):
    """human-readable place: _1.g.nodes[_5].next"""
    nm = b.lname(p["l"]) or "_%d" % p["l"]
    s = nm
    for x in p["p"]:
        if x == "*":
            s = "(*%s)" % s
        elif isinstance(x, dict) and "f" in x:
            s += "." + x.get("n", str(x["f"]))
        elif isinstance(x, dict) and "ix" in x:
            s += "[%s]" % (b.lname(x["ix"]) or "_%d" % x["ix"])
        elif isinstance(x, dict) and "cix" in x:
            s += "[%d]" % x["cix"]
        elif isinstance(x, dict) and "dc" in x:
            s += " as v%d" % x["dc"]
    return s


def callee_name(f):
    """normalised callee identity: resolved impl method if known, else declared path"""
    return norm_path(f.get("resolved") or f["path"])


def walk_expr(e):
    """yield all sub-expressions (pre-order)"""
    yield e
    if not isinstance(e, tuple):
        return
    k = e[0]
    if k == "call":
        for a in e[2]:
            yield from walk_expr(a)
    elif k == "bin":
        yield from walk_expr(e[2])
        yield from walk_expr(e[3])
    elif k in ("un",):
        yield from walk_expr(e[2])
    elif k in ("ref",):
        yield from walk_expr(e[2])
    elif k in ("cast", "discr", "repeat"):
        yield from walk_expr(e[1])
    elif k == "place":
        yield from walk_expr(e[1])
    elif k == "agg":
        for a in e[3]:
            yield from walk_expr(a)



# ---------------------------------------------------------------------------------------------------------------------
# Helper inlining.  The rule engines are intraprocedural (dominance, def-use inside one body).  When a refactoring moves a
# check or an update into a NEW private helper (`fn index_limit_reached(..) -> bool`, `fn push_link(..)`), the caller's body
# no longer shows it.  Functions that do not exist on the reference tree (pgsa/known_fns.txt) are therefore inlined into
# their callers before any rule runs: MIR-level substitution (callee locals and blocks renumbered, arguments copied into the
# callee's parameter locals, `return` -> assignment of the return place to the call's destination + goto the continuation).
# Inlining preserves behaviour, so this is a normalisation, not a rule; functions the rules know by name keep their identity.
import copy as _copy
import os as _os

KNOWN_FNS_FILE = _os.path.join(_os.path.dirname(_os.path.abspath(__file__)), "known_fns.txt")
INLINE_MAX_BLOCKS = 80


def _load_known():
    try:
        with open(KNOWN_FNS_FILE, encoding="utf-8") as fh:
            return {ln.rstrip("\n") for ln in fh if ln.strip() and not ln.startswith("#")}
    except OSError:
        return None


def _map_place(pl, lm):
    out = {"l": lm(pl["l"]), "p": []}
    for x in pl["p"]:
        if isinstance(x, dict) and "ix" in x:
            y = dict(x)
            y["ix"] = lm(x["ix"])
            out["p"].append(y)
        else:
            out["p"].append(x)
    return out


def _map_operand(o, lm):
    for k in ("copy", "move"):
        if k in o:
            return {k: _map_place(o[k], lm)}
    return o


def _map_rv(rv, lm):
    out = dict(rv)
    if "o" in rv:
        out["o"] = [_map_operand(o, lm) for o in rv["o"]]
    if "pl" in rv:
        out["pl"] = _map_place(rv["pl"], lm)
    return out


def _map_term(t, lm, bm):
    out = dict(t)
    k = t["k"]
    if "t" in t and isinstance(t["t"], list):
        out["t"] = [bm(x) if isinstance(x, int) else x for x in t["t"]]
    if k == "switch":
        out["d"] = _map_operand(t["d"], lm)
        out["cases"] = [[c[0], bm(c[1])] for c in t["cases"]]
        out["otherwise"] = bm(t["otherwise"]) if isinstance(t["otherwise"], int) else t["otherwise"]
    elif k == "call":
        out["args"] = [_map_operand(a, lm) for a in t["args"]]
        out["dest"] = _map_place(t["dest"], lm)
    elif k == "drop":
        out["pl"] = _map_place(t["pl"], lm)
    elif k == "assert":
        out["c"] = _map_operand(t["c"], lm)
    return out


def inline_body(bd, at_block, callee):
    """inline the call terminating bd['blocks'][at_block] with the body dict `callee`"""
    t = bd["blocks"][at_block]["term"]
    base_l = len(bd["locals"])
    base_b = len(bd["blocks"])
    nloc = len(callee["locals"])

    def lm(l):
        return base_l + l

    def bm(x):
        return base_b + x
    for lo in callee["locals"]:
        bd["locals"].append(dict(lo))
    cont = t["t"][0] if t.get("t") and isinstance(t["t"][0], int) else None
    # continuation block: dest = move callee._0 ; goto cont
    ret_blk = base_b + len(callee["blocks"])
    for cb in callee["blocks"]:
        nb = {"cleanup": cb["cleanup"], "st": [], "term": None}
        for st in cb["st"]:
            ns = dict(st)
            ns["lhs"] = _map_place(st["lhs"], lm)
            ns["rv"] = _map_rv(st["rv"], lm)
            nb["st"].append(ns)
        ct = cb["term"]
        if ct["k"] == "return":
            nb["term"] = {"k": "goto", "t": [ret_blk], "line": ct.get("line", 0), "mexp": ct.get("mexp", False), "mac": ct.get("mac", "")}
        else:
            nb["term"] = _map_term(ct, lm, bm)
        bd["blocks"].append(nb)
    line = t.get("line", 0)
    rb = {"cleanup": False, "st": [{"lhs": t["dest"], "rv": {"k": "use", "o": [{"move": {"l": lm(0), "p": []}}]}, "line": line, "exp": False, "mac": ""}],
          "term": ({"k": "goto", "t": [cont], "line": line, "mexp": False, "mac": ""} if cont is not None else {"k": "unreachable", "line": line, "mexp": False, "mac": ""})}
    bd["blocks"].append(rb)
    # Tail duplication: every return site of the callee gets its own copy of `dest = return value` and of the (short) decision that the
    # caller takes on it (`switch dest`, or `Try::branch(dest)` + switch), so that the outcome of each return site is visible to dominance.
    chain = _decision_chain(bd, cont) if cont is not None else None
    if chain is not None:
        sites = []
        for k_, cb in enumerate(callee["blocks"]):
            if cb["term"]["k"] != "return" or cb["cleanup"]:
                continue
            if cb["st"]:
                sites.append(k_)
            else:
                # the usual shape: one empty return block, the return value is assigned in its predecessors
                preds = [j for j, pb in enumerate(callee["blocks"]) if not pb["cleanup"] and pb["term"]["k"] == "goto" and pb["term"].get("t") == [k_]]
                others = [j for j, pb in enumerate(callee["blocks"]) if not pb["cleanup"] and j not in preds and pb["term"]["k"] != "goto"
                          and k_ in ([c[1] for c in pb["term"].get("cases", [])] + [pb["term"].get("otherwise")] + [x for x in pb["term"].get("t", []) if isinstance(x, int)])]
                sites.extend(preds if preds and not others else [k_])
        for k_ in sites:
            pblk = bd["blocks"][base_b + k_]
            pblk["st"].append(_copy.deepcopy(rb["st"][0]))
            cur = pblk
            for ci, cidx in enumerate(chain):
                src = bd["blocks"][cidx]
                cur["st"].extend(_copy.deepcopy(src["st"]))
                tt = _copy.deepcopy(src["term"])
                if ci + 1 < len(chain):
                    # the next chain block is cloned into a fresh block
                    nb = {"cleanup": False, "st": [], "term": None}
                    bd["blocks"].append(nb)
                    tt["t"] = [len(bd["blocks"]) - 1] + list(tt.get("t", [])[1:])
                    cur["term"] = tt
                    cur = nb
                else:
                    cur["term"] = tt
    # Reference parameters: `helper(&mut self.field, ..)` - inside the inlined body `*param` IS self.field. When the argument is a temporary with the
    # single definition `tmp = &[mut] PLACE` (PLACE rooted in a never-reassigned local, no index projection) and the callee never reassigns the
    # parameter, every `(*param).proj` of the inlined blocks is rewritten to `PLACE.proj`, so that field-keyed rules see the same stores and reads
    # as before the extraction.
    subst = {}
    for i, a in enumerate(t["args"]):
        if i + 1 > callee["argc"]:
            continue
        ap = a.get("move") or a.get("copy")
        if not ap or ap["p"]:
            continue
        dfs_ = [st for bl_ in bd["blocks"][:base_b] if not bl_["cleanup"] for st in bl_["st"] if st["lhs"]["l"] == ap["l"]]
        if len(dfs_) != 1 or dfs_[0]["lhs"]["p"] or dfs_[0]["rv"]["k"] != "ref":
            continue
        pl = dfs_[0]["rv"]["pl"]
        for _ in range(4):       # reborrow chains: tmp2 = &mut *tmp1 ; tmp1 = &mut self.field
            if not (pl["p"] and pl["p"][0] == "*"):
                break
            d2 = [st for bl_ in bd["blocks"][:base_b] if not bl_["cleanup"] for st in bl_["st"] if st["lhs"]["l"] == pl["l"]]
            c2 = [bl_ for bl_ in bd["blocks"][:base_b] if not bl_["cleanup"] and bl_["term"]["k"] == "call" and bl_["term"]["dest"]["l"] == pl["l"]]
            if len(d2) != 1 or c2 or d2[0]["lhs"]["p"] or d2[0]["rv"]["k"] != "ref":
                break
            pl = {"l": d2[0]["rv"]["pl"]["l"], "p": list(d2[0]["rv"]["pl"]["p"]) + list(pl["p"][1:])}
        if any(isinstance(x, dict) and "ix" in x for x in pl["p"]):
            continue
        root_defs = [st for bl_ in bd["blocks"][:base_b] if not bl_["cleanup"] for st in bl_["st"] if st["lhs"]["l"] == pl["l"] and not st["lhs"]["p"]]
        root_calls = [bl_ for bl_ in bd["blocks"][:base_b] if not bl_["cleanup"] and bl_["term"]["k"] == "call" and bl_["term"]["dest"]["l"] == pl["l"] and not bl_["term"]["dest"]["p"]]
        if pl["l"] > bd.get("argc", 0) and len(root_defs) + len(root_calls) != 1:
            continue
        if pl["l"] <= bd.get("argc", 0) and (root_defs or root_calls):
            continue
        if any(st["lhs"]["l"] == i + 1 and not st["lhs"]["p"] for cb in callee["blocks"] for st in cb["st"]):
            continue
        subst[lm(i + 1)] = pl
    if subst:
        for pl_ in _walk_places([{"blocks": bd["blocks"][base_b:]}]):
            if pl_["l"] in subst and pl_["p"] and pl_["p"][0] == "*":
                tgt = subst[pl_["l"]]
                pl_["p"] = _copy.deepcopy(tgt["p"]) + pl_["p"][1:]
                pl_["l"] = tgt["l"]
    # argument copies, then jump into the callee
    blk = bd["blocks"][at_block]
    for i, a in enumerate(t["args"]):
        if i + 1 <= callee["argc"]:
            blk["st"].append({"lhs": {"l": lm(i + 1), "p": []}, "rv": {"k": "use", "o": [a]}, "line": line, "exp": False, "mac": ""})
    blk["term"] = {"k": "goto", "t": [bm(0)], "line": line, "mexp": False, "mac": "", "inlined": callee["path"]}


BASELINE_FILE = _os.path.join(_os.path.dirname(_os.path.abspath(__file__)), "baseline.json")


def _load_baseline():
    try:
        with open(BASELINE_FILE, encoding="utf-8") as fh:
            return json.load(fh)
    except (OSError, ValueError):
        return None


def _walk_places(bodies):
    for b in bodies:
        for bl in b["blocks"]:
            for st in bl["st"]:
                yield st["lhs"]
                rv = st["rv"]
                if "pl" in rv:
                    yield rv["pl"]
                for o in rv.get("o", []):
                    for k in ("copy", "move"):
                        if k in o:
                            yield o[k]
            t = bl["term"]
            for o in list(t.get("args", [])) + ([t["d"]] if "d" in t else []) + ([t["c"]] if "c" in t else []):
                for k in ("copy", "move"):
                    if isinstance(o, dict) and k in o:
                        yield o[k]
            for k in ("dest", "pl"):
                if isinstance(t.get(k), dict):
                    yield t[k]


_IDCH = set("abcdefghijklmnopqrstuvwxyzABCDEFGHIJKLMNOPQRSTUVWXYZ0123456789_")


def _rename_in_string(s, subs):
    """subs: [(parent path without generics, new last segment, old last segment)]: every `<parent>[::<..>]::new` (also `<X as parent>::new`) in a
    def-path-like string gets its last segment back"""
    for parent, n_last, o_last in subs:
        key = "::" + n_last
        if key not in s:
            continue
        out, i = [], 0
        while True:
            j = s.find(key, i)
            if j < 0:
                out.append(s[i:])
                break
            e = j + len(key)
            hit = False
            if e == len(s) or s[e] not in _IDCH:
                pre = s[:j]
                if pre.endswith(">"):
                    depth, k = 0, len(pre) - 1
                    while k >= 0:
                        if pre[k] == ">" and (k == 0 or pre[k - 1] != "-"):
                            depth += 1
                        elif pre[k] == "<":
                            depth -= 1
                            if depth == 0:
                                break
                        k -= 1
                    if k >= 2 and pre[k - 2:k] == "::":
                        pre = pre[:k - 2]           # parent::<args>::name
                    else:
                        pre = pre[:-1]              # <X as parent>::name
                        if pre.endswith(">"):       # <X as parent<args>>::name
                            depth, k = 0, len(pre) - 1
                            while k >= 0:
                                if pre[k] == ">" and (k == 0 or pre[k - 1] != "-"):
                                    depth += 1
                                elif pre[k] == "<":
                                    depth -= 1
                                    if depth == 0:
                                        break
                                k -= 1
                            if k > 0:
                                pre = pre[:k]
                if pre.endswith(parent) and (len(pre) == len(parent) or pre[len(pre) - len(parent) - 1] not in _IDCH):
                    hit = True
            out.append(s[i:j])
            out.append("::" + (o_last if hit else n_last))
            i = e
        s = "".join(out)
    return s


def _deep_strings(o, f):
    if isinstance(o, dict):
        for k, v in o.items():
            if isinstance(v, str):
                if "::" in v:
                    o[k] = f(v)
            elif isinstance(v, (dict, list)):
                _deep_strings(v, f)
    elif isinstance(o, list):
        for k, v in enumerate(o):
            if isinstance(v, str):
                if "::" in v:
                    o[k] = f(v)
            elif isinstance(v, (dict, list)):
                _deep_strings(v, f)


def alias_renames(d, base, log=None):
    """Behaviour-preserving renames are undone before the rules run: a private struct field whose name is not in the baseline but whose position
    held a baseline name that is gone gets that name back; a private function that is new while exactly one baseline function with the same file,
    arity, impl and visibility class is missing is given the missing function's name (in its body path and at every call site)."""
    n = 0
    # ---- fields of single-variant ADTs
    fmap = {}
    for a in d.get("adts", []):
        bl = base["adts"].get(a["path"])
        if not bl or len(a["variants"]) != 1 or len(bl) != 1:
            continue
        cur = [f["name"] for f in a["variants"][0]["fields"]]
        old = bl[0]
        for i, nm in enumerate(cur):
            if nm not in old and i < len(old) and old[i] not in cur:
                fmap[(a["path"], nm)] = old[i]
                a["variants"][0]["fields"][i]["name"] = old[i]
    if fmap:
        for pl in _walk_places(d["bodies"]):
            for x in pl["p"]:
                if isinstance(x, dict) and "n" in x and (x.get("a"), x["n"]) in fmap:
                    x["n"] = fmap[(x["a"], x["n"])]
                    n += 1
        if log is not None:
            log.append(("#field-renames", {"%s.%s" % k: v for k, v in fmap.items()}))
    # ---- private functions (free functions, inherent methods, methods of private traits)
    present = {}
    for b in d["bodies"]:
        if b["kind"] in ("Fn", "AssocFn"):
            present.setdefault(norm_path(b["path"]), []).append(b)

    def sig(info):
        return (info["file"], info["argc"], info.get("selfhead", ""), info.get("trait", ""), info["kind"])
    missing = {np_: info for np_, info in base["fns"].items() if np_ not in present and info.get("vis") != "Public"}
    new = {np_: bs for np_, bs in present.items() if np_ not in base["fns"] and all(b_.get("vis") != "Public" for b_ in bs)}
    ren = {}
    for np_, bs in new.items():
        b0 = bs[0]
        s_ = (b0["file"], b0["argc"], b0.get("impl_selfhead", ""), b0.get("impl_trait", ""), b0["kind"])
        cands = [m for m, info in missing.items() if sig(info) == s_]
        if len(cands) == 1:
            ren.setdefault(cands[0], []).append(np_)
    ren = {old: news[0] for old, news in ren.items() if len(news) == 1}
    subs = []
    for old, newp in ren.items():
        o_last, n_last = last_seg(old), last_seg(newp)
        tr = present[newp][0].get("impl_trait", "")
        parent = tr if tr else newp[:len(newp) - len(n_last) - 2]
        if o_last != n_last and parent:
            subs.append((parent, n_last, o_last))
    if subs:
        _deep_strings(d["bodies"], lambda s_: _rename_in_string(s_, subs))
        n += len(subs)
        if log is not None:
            log.append(("#fn-renames", {v: k for k, v in ren.items()}))
    # ---- named locals (parameters and let bindings) of functions that exist in the baseline
    import difflib
    lren = {}
    for b in d["bodies"]:
        old = base.get("locals", {}).get(norm_path(b["path"]))
        if old is None:
            continue
        cur = [(i, l["name"], l["head"]) for i, l in enumerate(b["locals"]) if l["name"]]
        a_ = [(o[0], o[1]) for o in old]
        c_ = [(x[1], x[2]) for x in cur]
        if a_ == c_:
            continue
        onames, cnames = {o[0] for o in old}, {x[1] for x in cur}
        sm = difflib.SequenceMatcher(None, a_, c_, autojunk=False)
        for tag, i1, i2, j1, j2 in sm.get_opcodes():
            if tag != "replace" or i2 - i1 != j2 - j1:
                continue
            for k in range(i2 - i1):
                (on, oh), (cn, ch) = a_[i1 + k], c_[j1 + k]
                if oh == ch and on not in cnames and cn not in onames:
                    b["locals"][cur[j1 + k][0]]["name"] = on
                    lren["%s:%s" % (norm_path(b["path"]), cn)] = on
                    n += 1
    if lren and log is not None:
        log.append(("#local-renames", lren))
    return n


def _decision_chain(bd, cont):
    """[cont] or [cont, next]: the continuation consists of plain copies followed by a switch, or of plain copies + a call to Try::branch whose
    target block is (copies +) a switch.  None if the continuation does anything else (then nothing is duplicated)."""
    def simple(blk):
        return all(st["rv"]["k"] in ("use", "discr", "ref", "cast") and not st["lhs"]["p"] for st in blk["st"]) and len(blk["st"]) <= 4
    b0 = bd["blocks"][cont]
    if b0["cleanup"] or not simple(b0):
        return None
    t0 = b0["term"]
    if t0["k"] == "switch":
        return [cont]
    if t0["k"] == "call" and isinstance(t0.get("f"), dict) and norm_path(t0["f"].get("path", "")) == "core::ops::Try::branch" and t0.get("t") and isinstance(t0["t"][0], int):
        b1 = bd["blocks"][t0["t"][0]]
        if not b1["cleanup"] and simple(b1) and b1["term"]["k"] == "switch":
            return [cont, t0["t"][0]]
    return None


def inline_new_helpers(bodies, known, log=None):
    """bodies: list of body dicts. Inline calls to crate-local functions whose normalised path is not in `known`."""
    by_np = {}
    for b in bodies:
        if b["kind"] in ("Fn", "AssocFn"):
            by_np.setdefault(norm_path(b["path"]), []).append(b)
    def eligible(bd_):
        return bd_["file"].startswith("src/") and "quickcheck" not in bd_["file"] and len(bd_["blocks"]) <= INLINE_MAX_BLOCKS
    new = {np_: bs[0] for np_, bs in by_np.items() if np_ not in known and len(bs) == 1 and eligible(bs[0])}
    # several new bodies with one normalised path (the same helper generated by a macro for several impls): matched by their raw def path
    new_raw = {b_["path"]: b_ for np_, bs in by_np.items() if np_ not in known and len(bs) > 1 for b_ in bs if eligible(b_)}
    if not new and not new_raw:
        return 0
    # closures defined in a new helper move along with it: they become children of every body the helper is inlined into
    closures_of = {}
    for b in bodies:
        if b["kind"] == "Closure":
            closures_of.setdefault(b["root"], []).append(b)
    pristine = {k: _copy.deepcopy(v) for k, v in new.items()}
    pristine_raw = {k: _copy.deepcopy(v) for k, v in new_raw.items()}
    adopted = {}        # caller path -> [closure body dicts]
    n = 0
    for _round in range(3):
        did = False
        for b in bodies:
            if b["kind"] not in ("Fn", "AssocFn", "Closure"):
                continue
            i = 0
            while i < len(b["blocks"]) and len(b["blocks"]) < 600:
                t = b["blocks"][i]["term"]
                if t["k"] == "call" and isinstance(t.get("f"), dict) and t["f"].get("crate") == "petgraph":
                    cn = norm_path(t["f"].get("resolved") or t["f"]["path"])
                    c = pristine.get(cn) or pristine_raw.get(t["f"].get("resolved") or t["f"]["path"])
                    if c is not None and c["path"] != b["path"] and not b["blocks"][i]["cleanup"]:
                        inline_body(b, i, c)
                        n += 1
                        did = True
                        for cl in closures_of.get(c["path"], []):
                            adopted.setdefault(b["root"] if b["kind"] == "Closure" else b["path"], []).append(cl)
                        if log is not None:
                            log.append((norm_path(b["path"]), cn))
                i += 1
        if not did:
            break
    # a new helper that was inlined at every call site is gone as far as the rules are concerned
    still = set()
    for b in bodies:
        for bl in b["blocks"]:
            t = bl["term"]
            if t["k"] == "call" and isinstance(t.get("f"), dict) and t["f"].get("crate") == "petgraph":
                still.add(norm_path(t["f"].get("resolved") or t["f"]["path"]))
    still_raw = set()
    for b in bodies:
        for bl in b["blocks"]:
            t = bl["term"]
            if t["k"] == "call" and isinstance(t.get("f"), dict) and t["f"].get("crate") == "petgraph":
                still_raw.add(t["f"].get("resolved") or t["f"]["path"])
    gone = {v["path"] for k, v in pristine.items() if k not in still} | {k for k in pristine_raw if k not in still_raw}
    # re-root adopted closures onto (the first of) their new parents
    extra = {}
    for parent, cls in adopted.items():
        for cl in cls:
            if cl["root"] in gone and cl.get("_adopted") is None:
                cl["root"] = parent
                cl["_adopted"] = True
            elif cl["root"] != parent:
                extra.setdefault(parent, []).append(cl["path"])
    if gone:
        bodies[:] = [b for b in bodies if b["path"] not in gone]
    if log is not None and extra:
        log.append(("#extra-children", extra))
    return n


class Facts:
    def __init__(self, path):
        with open(path) as fh:
            d = json.load(fh)
        self.source = path
        self.inlined = []
        base = _load_baseline()
        if base is not None and not _os.environ.get("PGSA_NO_ALIAS"):    # measurement switch only: without the normalisation more alarms, never fewer
            alias_renames(d, base, self.inlined)
        known = _load_known()
        if known is not None:
            inline_new_helpers(d["bodies"], known, self.inlined)
        self.bodies = [Body(b, self) for b in d["bodies"]]
        self.by_path = {}
        for b in self.bodies:
            self.by_path.setdefault(b.path, b)
        self.by_npath = defaultdict(list)
        for b in self.bodies:
            self.by_npath[b.npath].append(b)
        self.impls = d["impls"]
        self.adts = {a["path"]: a for a in d["adts"]}
        self.traits = {t["path"]: t for t in d["traits"]}
        self.consts = {c["path"]: int(c["value"]) for c in d["consts"]}
        self.children = defaultdict(list)
        for b in self.bodies:
            if b.kind == "Closure":
                self.children[b.root].append(b)
        for ent in self.inlined:
            if ent[0] == "#extra-children":
                for parent, paths in ent[1].items():
                    for cp in paths:
                        cb = self.by_path.get(cp)
                        if cb is not None and cb not in self.children[parent]:
                            self.children[parent].append(cb)

    def fns(self):
        return [b for b in self.bodies if b.kind in ("Fn", "AssocFn", "Closure")]

    def body(self, path):
        return self.by_path.get(path)

    def find(self, npath_suffix, trait=None, selfhead=None):
        """bodies whose normalised path ends with the suffix (and match trait / self head if given)"""
        out = []
        for b in self.bodies:
            if b.npath == npath_suffix or b.npath.endswith("::" + npath_suffix):
                if trait is not None and b.impl_trait != trait:
                    continue
                if selfhead is not None and b.impl_selfhead != selfhead:
                    continue
                out.append(b)
        return out

    def with_closures(self, b):
        return [b] + self.children.get(b.path, [])

    def impls_of(self, trait):
        return [i for i in self.impls if i["trait"] == trait]

    def has_impl(self, trait, selfhead):
        return any(i["trait"] == trait and i["selfhead"] == selfhead for i in self.impls)
