"""SIBLING - agreement between sibling implementations (Engler et al.: cross-check implementations of one
interface), and the direction-index discipline of adjacency-list walks (DESIGN 3.11 DIRIDX).

Graph and StableGraph implement the same adjacency-list scheme twice (stable_graph re-implements the
iterators because its weights are Option).  The instances confirmed equal on today's tree are frozen in the
tables below; a change to one sibling that is not mirrored in the other is reported.
"""
import re
from collections import Counter

from .core import op_place, op_local, callee_name, last_seg, norm_path, walk_expr
from .report import RuleResult, Violation
from .guard import dom_atoms, call_atom

G_FILE = "src/graph_impl/mod.rs"
S_FILE = "src/graph_impl/stable_graph/mod.rs"

# (key, why they must agree)
INDEX_PAIRS = {
    "Neighbors::next": "both walk next[0] (outgoing) then next[1] (incoming) and report node[1] resp. node[0]",
    "Edges::next": "same two-list walk yielding edge references",
    "Externals::next": "both test next[k] / next[1-k] of each node",
    "EdgeReference::source": "node[0]",
    "EdgeReference::target": "node[1]",
}
STORE_PAIRS = {
    "Graph::neighbors_directed|StableGraph::neighbors_directed":
        "both cut the other list (next[1-k] = end) and reset skip_start for directed graphs",
}


def _key(b):
    if "»" in b.npath:
        m = re.search(r"::(\w+) as [^»]*»::(\w+)$", b.npath)
        if m:
            return "%s::%s" % (m.group(1), m.group(2))
    return "::".join(b.npath.split("::")[-2:])


def const_index_accesses(b):
    """multiset of (field, index descriptor, r|w) for accesses to the direction-indexed fields next / node"""
    out = []

    def scan(pl, rw):
        fs = pl["p"]
        for k, x in enumerate(fs):
            if isinstance(x, dict) and x.get("n") in ("next", "node") and x.get("a", "").startswith("graph_impl"):
                nxt = fs[k + 1] if k + 1 < len(fs) else None
                if isinstance(nxt, dict) and "cix" in nxt:
                    out.append((x["n"], nxt["cix"], rw))
                elif isinstance(nxt, dict) and "ix" in nxt:
                    e = b.local_expr(nxt["ix"], 6)
                    d = "var"
                    if e[0] == "const" and e[1].isdigit():
                        d = int(e[1])
                    elif e[0] == "bin" and e[1].startswith("Sub"):
                        d = "1-k"
                    elif any(isinstance(s, tuple) and s[0] == "call" and last_seg(s[1]["path"]) == "index" for s in walk_expr(e)):
                        d = "k"
                    out.append((x["n"], d, rw))
                else:
                    out.append((x["n"], "*", rw))
    for i, j, st in b.stmts():
        scan(st["lhs"], "w")
        rv = st["rv"]
        if rv["k"] in ("ref", "rawptr", "discr"):
            scan(rv["pl"], "r")
        for o in rv.get("o", []):
            p = op_place(o)
            if p:
                scan(p, "r")
    for i, t in b.calls():
        for a in t["args"]:
            p = op_place(a)
            if p:
                scan(p, "r")
    return Counter(out)


def store_summary(b):
    """place stores into by-value struct locals of graph_impl types, with the is_directed() guard they sit under"""
    out = []
    for i, j, st in b.stmts():
        lhs = st["lhs"]
        fs = [x for x in lhs["p"] if isinstance(x, dict) and "f" in x]
        if fs and not b.lty(lhs["l"]).startswith("&") and lhs["l"] != 0 and "graph_impl" in fs[0].get("a", ""):
            conds = []
            for (e, truth, src) in dom_atoms(b, i):
                if call_atom(e, ("is_directed",)) is not None:
                    conds.append(truth)
            out.append((fs[0].get("a").split("::")[-1], fs[0].get("n"), tuple(conds)))
    return sorted(set(out))


def run(facts):
    r = RuleResult("SIBLING", "Graph's and StableGraph's twin implementations of the adjacency-list iterators access the direction-indexed fields "
                              "next[i] / node[i] with the same set of constant indices (the same slots are read and written), and neighbors_directed performs the "
                              "same stores on the iterator under the same is_directed() guard")
    G, S = {}, {}
    for b in facts.bodies:
        if b.kind not in ("AssocFn", "Fn"):
            continue
        if b.file == G_FILE:
            G[_key(b)] = b
        elif b.file == S_FILE:
            S[_key(b)] = b
    for key, why in INDEX_PAIRS.items():
        g, s = G.get(key), S.get(key)
        if not g or not s:
            r.bad(Violation("SIBLING", key, "anchor-missing", G_FILE, 0, "sibling pair %s not found in both files - fail closed" % key))
            continue
        a, c = Counter(), Counter()
        for bb in facts.with_closures(g):
            a += const_index_accesses(bb)
        for bb in facts.with_closures(s):
            c += const_index_accesses(bb)
        if any(k[1] == "var" for k in list(a) + list(c)):
            # an index that is neither a constant nor k / 1-k of the body's own direction (e.g. a closure parameter): shape not recognised
            r.silent += 1
            r.ok(key, "index-accesses", "index expression not classifiable in one of the twins: silent (%s)" % why)
            continue
        # compare WHICH (field, index, r/w) accesses occur, not how often: reading a slot once into a temporary instead of twice is the same code
        # a twin that destructures the slot (`Edge { node, next, .. }`) reads a whole array ('*') and indexes the binding, which is invisible here: the reads of
        # that field are then not comparable index by index - only its writes (and the reads of the other field) are compared
        for fld in {k[0] for k in list(a) + list(c) if k[1] == "*" and k[2] == "r"}:
            for cnt in (a, c):
                for k in [k for k in cnt if k[0] == fld and k[2] == "r"]:
                    del cnt[k]
            a[(fld, "any", "r")] = 1
            c[(fld, "any", "r")] = 1
        if set(a) == set(c) and a:
            r.ok(key, "index-accesses", "both: %s (%s)" % (dict(a), why))
        else:
            diff = {k: (a.get(k, 0), c.get(k, 0)) for k in set(a) ^ set(c)}
            r.bad(Violation("SIBLING", s.npath, "index-accesses", s.file, s.line,
                            "%s: Graph's and StableGraph's implementations access next[]/node[] differently: (field, index, r/w) -> "
                            "(Graph count, StableGraph count) %s. %s" % (key, diff, why), {"graph": str(dict(a)), "stable": str(dict(c))}))
    for pair, why in STORE_PAIRS.items():
        gk, sk = pair.split("|")
        g = [b for b in facts.bodies if b.file == G_FILE and b.npath.endswith("::" + gk)]
        s = [b for b in facts.bodies if b.file == S_FILE and b.npath.endswith("::" + sk)]
        if not g or not s:
            r.bad(Violation("SIBLING", pair, "anchor-missing", G_FILE, 0, "sibling pair %s not found - fail closed" % pair))
            continue
        a, c = store_summary(g[0]), store_summary(s[0])
        if a == c and a:
            r.ok(gk.split("::")[-1], "stores", "both: %s (%s)" % (a, why))
        else:
            r.bad(Violation("SIBLING", s[0].npath, "stores", s[0].file, s[0].line,
                            "%s: store summaries differ: Graph %s vs StableGraph %s. %s" % (gk.split("::")[-1], a, c, why)))
    r.floor = 6
    return r


def diridx(facts):
    """a list cursor next[i] is only ever advanced from some slot's next[i] with the SAME constant i"""
    r = RuleResult("DIRIDX", "in the adjacency-list walkers of Graph and StableGraph a cursor `X.next[i]` is only assigned from `Y.next[j]` with "
                             "j == i (the outgoing cursor follows outgoing links, the incoming cursor incoming links)")
    n = 0
    for b in facts.bodies:
        if b.file not in (G_FILE, S_FILE) or b.kind not in ("AssocFn", "Fn", "Closure"):
            continue
        for i, j, st in b.stmts():
            lhs = st["lhs"]
            li = _const_next_index(lhs, b)
            if li is None or st["rv"]["k"] != "use":
                continue
            src = op_place(st["rv"]["o"][0])
            if src is None:
                continue
            # follow one temp copy
            ri = _const_next_index(src, b)
            if ri is None and not src["p"]:
                sd = b.single_def(src["l"])
                if sd and sd[0] == "st":
                    rv2 = b.blocks[sd[1]]["st"][sd[2]]["rv"]
                    if rv2["k"] == "use" and op_place(rv2["o"][0]):
                        ri = _const_next_index(op_place(rv2["o"][0]), b)
            if ri is None:
                continue
            n += 1
            site = "next[%d]<-next[%d]#%d" % (li, ri, n)
            if li == ri:
                r.ok(b.npath, "next[%d]<-next[%d]" % (li, ri), "cursor advanced along its own list")
            else:
                r.bad(Violation("DIRIDX", b.npath, "next[%d]<-next[%d]" % (li, ri), b.file, st["line"],
                                "cursor next[%d] is advanced from a next[%d] link: the %s walk would follow the %s list"
                                % (li, ri, "outgoing" if li == 0 else "incoming", "incoming" if li == 0 else "outgoing")))
    r.floor = 6
    r.floor_what = "cursor advances"
    return r


def _const_next_index(pl, b=None):
    fs = pl["p"]
    for k, x in enumerate(fs):
        if isinstance(x, dict) and x.get("n") == "next" and x.get("a", "").startswith("graph_impl"):
            nxt = fs[k + 1] if k + 1 < len(fs) else None
            if isinstance(nxt, dict) and "cix" in nxt:
                return nxt["cix"]
            if isinstance(nxt, dict) and "ix" in nxt and b is not None:
                e = b.local_expr(nxt["ix"], 4)
                if e[0] == "const" and e[1].isdigit():
                    return int(e[1])
    return None


# ------------------------------------------------------------------------------------------------
def fieldswap(facts):
    """reverse() must swap every direction-indexed field"""
    r = RuleResult("FIELDSWAP", "Graph::reverse / StableGraph::reverse swap every direction-indexed ([_; 2]) field of Node and Edge "
                                "(Node.next, Edge.next, Edge.node): the set of fields is read from the type definitions")
    want = set()
    for adt in ("graph_impl::Node", "graph_impl::Edge"):
        a = facts.adts.get(adt)
        if not a:
            r.bad(Violation("FIELDSWAP", adt, "anchor-missing", G_FILE, 0, "%s not found - fail closed" % adt))
            continue
        for f in a["variants"][0]["fields"]:
            if re.search(r"^\[.*; 2_usize\]$|^\[.*; 2\]$", f["ty"]):
                want.add((adt.split("::")[-1], f["name"]))
    for sfx in ("graph_impl::Graph::reverse", "graph_impl::stable_graph::StableGraph::reverse"):
        bs = [b for b in facts.bodies if b.npath == sfx]
        if not bs:
            r.bad(Violation("FIELDSWAP", sfx, "anchor-missing", G_FILE, 0, "%s not found - fail closed" % sfx))
            continue
        b = bs[0]
        got = set()
        for i, t in b.calls():
            if last_seg(t["f"]["path"]) != "swap" or not t["args"]:
                continue
            e = b.expr(t["args"][0], 8)
            for s in walk_expr(e):
                if isinstance(s, tuple) and s[0] == "place":
                    for x in s[2]:
                        if isinstance(x, tuple) and x[0] == "f" and x[3] in ("graph_impl::Node", "graph_impl::Edge"):
                            got.add((x[3].split("::")[-1], x[2]))
            # swap(0, 1)
        missing = want - got
        if want and not missing:
            r.ok(b.npath, "swaps", "swaps %s" % sorted(got))
        else:
            r.bad(Violation("FIELDSWAP", b.npath, "swaps", b.file, b.line,
                            "reverse() does not swap the direction-indexed field(s) %s (declared [_; 2] fields: %s): the reversed graph's "
                            "lists and endpoints disagree" % (sorted(missing), sorted(want))))
    r.floor = 2
    return r


K_FUNCS = {
    "graph_impl::Graph::remove_node": "both lists of the removed node are drained with next[k]; the moved node's edges get node[k] re-pointed per list k",
    "graph_impl::Graph::change_edge_links": "list k of endpoint edge_node[k] is relinked with next[k] / edge_next[k]",
    "graph_impl::stable_graph::StableGraph::remove_node": "both lists of the removed node are drained with next[k]",
}


def _reach(b, start):
    succ = b.cfg()[0]
    seen = set()
    stk = list(succ[start])
    while stk:
        x = stk.pop()
        if x in seen:
            continue
        seen.add(x)
        stk.extend(succ[x])
    return seen


def k_consistency(facts):
    """inside `for d in DIRECTIONS { let k = d.index(); .. }` every direction array is indexed by that k"""
    r = RuleResult("DIRIDX-K", "in the per-direction loops of remove_node / change_edge_links every access to a direction-indexed array (next, node, "
                               "edge_node, edge_next, swap_edges) is indexed by k = d.index() of the loop's own direction (never a constant or 1-k), and the "
                               "edge walker is started with the same direction d")
    for fn, why in K_FUNCS.items():
        bs = [b for b in facts.bodies if b.npath == fn]
        if not bs:
            r.bad(Violation("DIRIDX-K", fn, "anchor-missing", G_FILE, 0, "%s not found - fail closed" % fn))
            continue
        b = bs[0]
        n = 0
        bad = []
        kblocks = [i2 for i2, t2 in b.calls() if last_seg(t2["f"]["path"]) == "index" and "Direction" in (t2["f"].get("self", "") + t2["f"]["path"])]
        # blocks inside a per-direction loop: dominated by a k = d.index() call and able to reach it again (loop body)
        inloop = set()
        for kb in kblocks:
            for blk in b.cfg()[2]:
                if b.dominates(kb, blk) and kb in _reach(b, blk):
                    inloop.add(blk)
        for i, j, st in b.stmts():
            if i not in inloop:
                continue
            pls = [st["lhs"]]
            rv = st["rv"]
            if rv["k"] in ("ref", "rawptr", "discr"):
                pls.append(rv["pl"])
            for o in rv.get("o", []):
                p = op_place(o)
                if p:
                    pls.append(p)
            for pl in pls:
                fs = pl["p"]
                for k_, x in enumerate(fs):
                    if not (isinstance(x, dict) and "ix" in x):
                        continue
                    prev = fs[k_ - 1] if k_ > 0 else None
                    is2 = False
                    if isinstance(prev, dict) and prev.get("n") in ("next", "node") and prev.get("a", "").startswith("graph_impl"):
                        is2 = True
                    elif k_ == 0 or (k_ == 1 and prev == "*"):
                        ty = b.lty(pl["l"])
                        if re.search(r"\[[^\[\]]*; 2(_usize)?\]$", ty):
                            is2 = True
                    if not is2:
                        continue
                    n += 1
                    e = b.local_expr(x["ix"], 6)
                    ok = isinstance(e, tuple) and e[0] == "call" and last_seg(e[1]["path"]) == "index" and "Direction" in (e[1].get("self", "") + e[1]["path"])
                    if not ok:
                        bad.append((st["line"], "const %s" % e[1] if e[0] == "const" else ("1-k" if e[0] == "bin" else str(e[0]))))
        # a direction array used as a whole (iter/iter_mut/contains over both slots) inside the per-direction loop
        for i, j, st in b.stmts():
            if i not in inloop:
                continue
            rv = st["rv"]
            if rv["k"] in ("ref", "rawptr"):
                fs = rv["pl"]["p"]
                if fs and isinstance(fs[-1], dict) and fs[-1].get("n") in ("next", "node") and fs[-1].get("a", "").startswith("graph_impl"):
                    bad.append((st["line"], "the whole array"))
        if bad:
            r.bad(Violation("DIRIDX-K", b.npath, "k-index", b.file, bad[0][0],
                            "a direction-indexed array is indexed by %s instead of the loop's k = d.index() (lines %s): %s"
                            % (bad[0][1], [x[0] for x in bad], why)))
        else:
            r.ok(b.npath, "k-index", "%d direction-array accesses, all indexed by k = d.index()" % n)
        # the edge walker gets the loop's own direction
        for i, t in b.calls():
            if last_seg(callee_name(t["f"])) == "edges_walker_mut" and len(t["args"]) >= 3:
                de = b.expr(t["args"][2], 6, named_leaf=True)
                kcalls = [b.expr(b.blocks[i2]["term"]["args"][0], 6, named_leaf=True) for i2, t2 in b.calls()
                          if last_seg(t2["f"]["path"]) == "index" and "Direction" in (t2["f"].get("self", "") + t2["f"]["path"]) and b.dominates(i2, i)]
                from .tag import leaves as _lv
                dl = {x for x in _lv(de) if x[0] == "local"}
                ok = any(dl & {x for x in _lv(ke) if x[0] == "local"} for ke in kcalls) if kcalls else False
                if ok:
                    r.ok(b.npath, "walker-dir", "edges_walker_mut started with the loop's direction")
                else:
                    r.bad(Violation("DIRIDX-K", b.npath, "walker-dir", b.file, t["line"],
                                    "edges_walker_mut is not started with the direction d whose index k is used in the loop body"))
    r.floor = 5
    return r
