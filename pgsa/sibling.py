"""SIBLING - agreement between sibling implementations (Engler et al.: cross-check implementations of one
interface), and the direction-index discipline of adjacency-list walks (DESIGN 3.11 DIRIDX).

Graph and StableGraph implement the same adjacency-list scheme twice (stable_graph re-implements the
iterators because its weights are Option).  The instances confirmed equal on today's tree are frozen in the
tables below; a change to one sibling that is not mirrored in the other is reported.
"""
import re
from collections import Counter

from .core import op_place, op_local, callee_name, last_seg, norm_path, walk_expr
from .report import RuleResult, Violation
from .guard import dom_atoms, call_atom

G_FILE = "src/graph_impl/mod.rs"
S_FILE = "src/graph_impl/stable_graph/mod.rs"

# (key, why they must agree)
INDEX_PAIRS = {
    "Neighbors::next": "both walk next[0] (outgoing) then next[1] (incoming) and report node[1] resp. node[0]",
    "Edges::next": "same two-list walk yielding edge references",
    "Externals::next": "both test next[k] / next[1-k] of each node",
    "EdgeReference::source": "node[0]",
    "EdgeReference::target": "node[1]",
}
STORE_PAIRS = {
    "Graph::neighbors_directed|StableGraph::neighbors_directed":
        "both cut the other list (next[1-k] = end) and reset skip_start for directed graphs",
}


def _key(b):
    if "»" in b.npath:
        m = re.search(r"::(\w+) as [^»]*»::(\w+)$", b.npath)
        if m:
            return "%s::%s" % (m.group(1), m.group(2))
    return "::".join(b.npath.split("::")[-2:])


def const_index_accesses(b):
    """multiset of (field, index descriptor, r|w) for accesses to the direction-indexed fields next / node"""
    out = []

    def scan(pl, rw):
        fs = pl["p"]
        for k, x in enumerate(fs):
            if isinstance(x, dict) and x.get("n") in ("next", "node") and x.get("a", "").startswith("graph_impl"):
                nxt = fs[k + 1] if k + 1 < len(fs) else None
                if isinstance(nxt, dict) and "cix" in nxt:
                    out.append((x["n"], nxt["cix"], rw))
                elif isinstance(nxt, dict) and "ix" in nxt:
                    e = b.local_expr(nxt["ix"], 6)
                    d = "var"
                    if e[0] == "const" and e[1].isdigit():
                        d = int(e[1])
                    elif e[0] == "bin" and e[1].startswith("Sub"):
                        d = "1-k"
                    elif any(isinstance(s, tuple) and s[0] == "call" and last_seg(s[1]["path"]) == "index" for s in walk_expr(e)):
                        d = "k"
                    out.append((x["n"], d, rw))
                else:
                    out.append((x["n"], "*", rw))
    for i, j, st in b.stmts():
        scan(st["lhs"], "w")
        rv = st["rv"]
        if rv["k"] in ("ref", "rawptr", "discr"):
            scan(rv["pl"], "r")
        for o in rv.get("o", []):
            p = op_place(o)
            if p:
                scan(p, "r")
    for i, t in b.calls():
        for a in t["args"]:
            p = op_place(a)
            if p:
                scan(p, "r")
    return Counter(out)


def store_summary(b):
    """place stores into by-value struct locals of graph_impl types, with the is_directed() guard they sit under"""
    out = []
    for i, j, st in b.stmts():
        lhs = st["lhs"]
        fs = [x for x in lhs["p"] if isinstance(x, dict) and "f" in x]
        if fs and not b.lty(lhs["l"]).startswith("&") and lhs["l"] != 0 and "graph_impl" in fs[0].get("a", ""):
            conds = []
            for (e, truth, src) in dom_atoms(b, i):
                if call_atom(e, ("is_directed",)) is not None:
                    conds.append(truth)
            out.append((fs[0].get("a").split("::")[-1], fs[0].get("n"), tuple(conds)))
    return sorted(set(out))


def run(facts):
    r = RuleResult("SIBLING", "Graph's and StableGraph's twin implementations of the adjacency-list iterators access the direction-indexed fields "
                              "next[i] / node[i] with the same constant indices the same number of times, and neighbors_directed performs the "
                              "same stores on the iterator under the same is_directed() guard")
    G, S = {}, {}
    for b in facts.bodies:
        if b.kind not in ("AssocFn", "Fn"):
            continue
        if b.file == G_FILE:
            G[_key(b)] = b
        elif b.file == S_FILE:
            S[_key(b)] = b
    for key, why in INDEX_PAIRS.items():
        g, s = G.get(key), S.get(key)
        if not g or not s:
            r.bad(Violation("SIBLING", key, "anchor-missing", G_FILE, 0, "sibling pair %s not found in both files - fail closed" % key))
            continue
        a, c = const_index_accesses(g), const_index_accesses(s)
        if a == c and a:
            r.ok(key, "index-accesses", "both: %s (%s)" % (dict(a), why))
        else:
            diff = {k: (a.get(k, 0), c.get(k, 0)) for k in set(a) | set(c) if a.get(k, 0) != c.get(k, 0)}
            r.bad(Violation("SIBLING", s.npath, "index-accesses", s.file, s.line,
                            "%s: Graph's and StableGraph's implementations access next[]/node[] differently: (field, index, r/w) -> "
                            "(Graph count, StableGraph count) %s. %s" % (key, diff, why), {"graph": str(dict(a)), "stable": str(dict(c))}))
    for pair, why in STORE_PAIRS.items():
        gk, sk = pair.split("|")
        g = [b for b in facts.bodies if b.file == G_FILE and b.npath.endswith("::" + gk)]
        s = [b for b in facts.bodies if b.file == S_FILE and b.npath.endswith("::" + sk)]
        if not g or not s:
            r.bad(Violation("SIBLING", pair, "anchor-missing", G_FILE, 0, "sibling pair %s not found - fail closed" % pair))
            continue
        a, c = store_summary(g[0]), store_summary(s[0])
        if a == c and a:
            r.ok(gk.split("::")[-1], "stores", "both: %s (%s)" % (a, why))
        else:
            r.bad(Violation("SIBLING", s[0].npath, "stores", s[0].file, s[0].line,
                            "%s: store summaries differ: Graph %s vs StableGraph %s. %s" % (gk.split("::")[-1], a, c, why)))
    r.floor = 6
    return r


def diridx(facts):
    """a list cursor next[i] is only ever advanced from some slot's next[i] with the SAME constant i"""
    r = RuleResult("DIRIDX", "in the adjacency-list walkers of Graph and StableGraph a cursor `X.next[i]` is only assigned from `Y.next[j]` with "
                             "j == i (the outgoing cursor follows outgoing links, the incoming cursor incoming links)")
    n = 0
    for b in facts.bodies:
        if b.file not in (G_FILE, S_FILE) or b.kind not in ("AssocFn", "Fn", "Closure"):
            continue
        for i, j, st in b.stmts():
            lhs = st["lhs"]
            li = _const_next_index(lhs, b)
            if li is None or st["rv"]["k"] != "use":
                continue
            src = op_place(st["rv"]["o"][0])
            if src is None:
                continue
            # follow one temp copy
            ri = _const_next_index(src, b)
            if ri is None and not src["p"]:
                sd = b.single_def(src["l"])
                if sd and sd[0] == "st":
                    rv2 = b.blocks[sd[1]]["st"][sd[2]]["rv"]
                    if rv2["k"] == "use" and op_place(rv2["o"][0]):
                        ri = _const_next_index(op_place(rv2["o"][0]), b)
            if ri is None:
                continue
            n += 1
            site = "next[%d]<-next[%d]#%d" % (li, ri, n)
            if li == ri:
                r.ok(b.npath, "next[%d]<-next[%d]" % (li, ri), "cursor advanced along its own list")
            else:
                r.bad(Violation("DIRIDX", b.npath, "next[%d]<-next[%d]" % (li, ri), b.file, st["line"],
                                "cursor next[%d] is advanced from a next[%d] link: the %s walk would follow the %s list"
                                % (li, ri, "outgoing" if li == 0 else "incoming", "incoming" if li == 0 else "outgoing")))
    r.floor = 6
    r.floor_what = "cursor advances"
    return r


def _const_next_index(pl, b=None):
    fs = pl["p"]
    for k, x in enumerate(fs):
        if isinstance(x, dict) and x.get("n") == "next" and x.get("a", "").startswith("graph_impl"):
            nxt = fs[k + 1] if k + 1 < len(fs) else None
            if isinstance(nxt, dict) and "cix" in nxt:
                return nxt["cix"]
            if isinstance(nxt, dict) and "ix" in nxt and b is not None:
                e = b.local_expr(nxt["ix"], 4)
                if e[0] == "const" and e[1].isdigit():
                    return int(e[1])
    return None
