"""Rule results, violations, known findings."""
import os
import re


class Violation:
    def __init__(self, rule, func, site, file, line, msg, detail=None):
        self.rule = rule          # e.g. DIM-CARD
        self.func = func          # normalised def-path of the function
        self.site = site          # site descriptor (no line numbers)
        self.file = file
        self.line = line
        self.msg = msg
        self.detail = detail or {}
        self.configs = []

    @property
    def key(self):
        k = "%s:%s:%s" % (self.rule, self.func, self.site)
        return re.sub(r"\s+", "_", k)

    def to_json(self):
        return {"rule": self.rule, "function": self.func, "site": self.site, "key": self.key,
                "location": "%s:%s" % (self.file, self.line), "message": self.msg,
                "detail": self.detail, "configs": self.configs}


class RuleResult:
    """What one rule instance set covered on one fact file."""

    def __init__(self, rule, clause):
        self.rule = rule
        self.clause = clause            # one sentence: the structural clause decided
        self.instances = []             # list of dicts {site, verdict, why}
        self.violations = []
        self.floor = 0
        self.floor_what = "instances"
        self.silent = 0                 # unrecognised constructs (counted, never reported)
        self.notes = []

    def ok(self, func, site, why, **kw):
        d = {"func": func, "site": site, "verdict": "ok", "why": why}
        d.update(kw)
        self.instances.append(d)

    def bad(self, v, why=None):
        self.instances.append({"func": v.func, "site": v.site, "verdict": "VIOLATION", "why": why or v.msg})
        self.violations.append(v)

    def count(self):
        return len(self.instances)

    def check_floor(self):
        """vacuity guard. `floor` is the number of instances counted by hand on the reference tree; a behaviour-preserving refactoring can
        legitimately merge or split sites (two pushes hoisted into one, an explicit `return None` turned into `?`), so the alarm is raised only
        when fewer than half of them (and at least one) are left - each rule additionally fails closed on its own anchors"""
        need = max(1, (self.floor + 1) // 2) if self.floor > 0 else 0
        if self.count() < need:
            v = Violation("FLOOR", self.rule, "instances<%d" % need, "-", 0,
                          "rule %s matched %d %s, fewer than %d (half of the %d confirmed by hand): the rule has "
                          "gone vacuous (anchor moved/renamed or extraction broken) - fail closed"
                          % (self.rule, self.count(), self.floor_what, need, self.floor))
            self.violations.append(v)


def load_known(path):
    """known_findings.txt lines:
         known: property=<id> key=<violation key> <what fails>
         fixed: property=<id> <commit> <what failed>
       Only 'known:' lines suppress, by exact key."""
    known = {}
    fixed = []
    if not os.path.exists(path):
        return known, fixed
    with open(path, encoding="utf-8") as fh:
        for ln in fh:
            ln = ln.strip()
            if not ln or ln.startswith("#"):
                continue
            if ln.startswith("known:"):
                m = re.match(r"known:\s+property=(\S+)\s+key=(\S+)\s*(.*)", ln)
                if m:
                    known[(m.group(1), m.group(2))] = m.group(3)
            elif ln.startswith("fixed:"):
                fixed.append(ln)
    return known, fixed
