"""WIRE - writer/reader agreement (DESIGN 3.9): serde structs of Graph/StableGraph and the graph6 constants."""
import re

from .core import op_place, op_local, callee_name, last_seg, norm_path, walk_expr
from .report import RuleResult, Violation
from .guard import dom_atoms, has_call, Obl
from .tag import leaves

STRUCTS = {
    "SerGraph": "graph_impl::serialization::SerGraph",
    "DeserGraph": "graph_impl::serialization::DeserGraph",
    "SerStableGraph": "graph_impl::stable_graph::serialization::SerStableGraph",
    "DeserStableGraph": "graph_impl::stable_graph::serialization::DeserStableGraph",
}


def _str_consts(b, callee_names):
    out = []
    for i, t in b.calls():
        if last_seg(t["f"]["path"]) in callee_names:
            for o in t["args"]:
                if "const" in o and o["const"].startswith('"'):
                    out.append(o["const"].strip('"'))
    return out


def serde_structs(facts):
    r = RuleResult("WIRE-SERDE", "the four wire structs (SerGraph, DeserGraph, SerStableGraph, DeserStableGraph) declare the same fields in the same "
                                 "order (bincode is positional), the derived impls use one container name and the same field names, the edge tuple is "
                                 "(source, target, weight) on the writer and feeds node: [i, j] in that order on the reader")
    fields = {}
    for short, path in STRUCTS.items():
        a = facts.adts.get(path)
        if not a:
            r.bad(Violation("WIRE-SERDE", path, "anchor-missing", "src/graph_impl/serialization.rs", 0, "wire struct %s not found - fail closed" % path))
            continue
        fields[short] = [f["name"] for f in a["variants"][0]["fields"]]
    if len(fields) == 4:
        ref = fields["SerGraph"]
        for short, fs in fields.items():
            if fs == ref:
                r.ok(STRUCTS[short], "field-order", "fields %s" % fs)
            else:
                r.bad(Violation("WIRE-SERDE", STRUCTS[short], "field-order", "src/graph_impl/serialization.rs", 0,
                                "%s declares fields %s but SerGraph declares %s: positional formats (bincode) would mix the fields up" % (short, fs, ref)))
    # names used by the derived impls
    names = {}
    for b in facts.bodies:
        if "serialization" not in b.file:
            continue
        for short, path in STRUCTS.items():
            if path.split("::")[-1] + "»" in b.npath or (" for " + path + "»") in b.npath:
                if b.name == "serialize" and b.impl_trait.endswith("Serialize"):
                    c_ = _str_consts(b, ("serialize_struct",))
                    if c_:
                        names.setdefault(short, {})["container"] = c_
                        names[short]["fields"] = _str_consts(b, ("serialize_field", "skip_field"))
                if b.name == "deserialize" and b.impl_trait.endswith("Deserialize"):
                    c_ = _str_consts(b, ("deserialize_struct",))
                    if c_:
                        names.setdefault(short, {})["container"] = c_
                if b.name == "visit_str":
                    fs = _str_consts(b, ("eq",))
                    if fs:
                        names.setdefault(short, {})["fields"] = fs
    for short in STRUCTS:
        n = names.get(short, {})
        c = n.get("container")
        f = n.get("fields")
        if not c or not f:
            r.silent += 1
            r.ok(STRUCTS[short], "derived-names", "derived impl constants not recognised (silent): %s" % n)
            continue
        okc = c == ["Graph"]
        okf = f == fields.get(short, f) or (short.startswith("Deser") and sorted(f) == sorted(fields.get(short, f)))
        if okc and okf:
            r.ok(STRUCTS[short], "derived-names", "container %s fields %s" % (c, f))
        else:
            r.bad(Violation("WIRE-SERDE", STRUCTS[short], "derived-names", "src/graph_impl/serialization.rs", 0,
                            "derived impl of %s uses container %s / fields %s; expected container ['Graph'] and the declared field names %s "
                            "(self-describing formats match by name)" % (short, c, f, fields.get(short))))
    # edge tuple order on writer and reader
    for fn, role in (("graph_impl::serialization::ser_graph_edges", "writer"), ("graph_impl::stable_graph::serialization::ser_stable_graph_edges", "writer"),
                     ("graph_impl::serialization::deser_graph_edges", "reader"), ("graph_impl::stable_graph::serialization::deser_stable_graph_edges", "reader")):
        roots = facts.find(fn)
        if not roots:
            r.bad(Violation("WIRE-SERDE", fn, "anchor-missing", "src/graph_impl/serialization.rs", 0, "%s not found - fail closed" % fn))
            continue
        found = False
        for b in facts.with_closures(roots[0]):
            for i, j, st in b.stmts():
                rv = st["rv"]
                if role == "writer" and rv["k"] == "agg" and rv["ak"] == "tuple" and len(rv["o"]) == 3:
                    e0, e1 = b.expr(rv["o"][0], 5), b.expr(rv["o"][1], 5)
                    c0 = last_seg(e0[1]["path"]) if e0[0] == "call" else "?"
                    c1 = last_seg(e1[1]["path"]) if e1[0] == "call" else "?"
                    if "?" in (c0, c1) and not found:
                        continue
                    found = True
                    if (c0, c1) == ("source", "target"):
                        r.ok(b.npath, "edge-tuple", "(edge.source(), edge.target(), weight)")
                    else:
                        r.bad(Violation("WIRE-SERDE", b.npath, "edge-tuple", b.file, st["line"],
                                        "writer emits the edge tuple as (%s(), %s(), w); the wire format and the reader expect (source, target, w)" % (c0, c1)))
                if role == "reader" and rv["k"] == "agg" and rv["ak"] == "adt" and rv["name"] == "graph_impl::Edge" and len(rv["o"]) == 3:
                    # Edge { weight, next, node }: operands in field declaration order (weight, next, node)
                    a = facts.adts["graph_impl::Edge"]["variants"][0]["fields"]
                    ni = [k for k, f in enumerate(a) if f["name"] == "node"][0]
                    ne = b.expr(rv["o"][ni], 6)
                    if ne[0] == "agg" and ne[1] in ("", "array") and len(ne[3]) == 2:
                        ks = []
                        for comp in ne[3]:
                            k = None
                            for s in walk_expr(comp):
                                if isinstance(s, tuple) and s[0] == "place":
                                    fs = [x for x in s[2] if isinstance(x, tuple) and x[0] == "f"]
                                    if fs:
                                        k = fs[-1][1]
                            ks.append(k)
                        if ks == [None, None]:
                            continue     # the None branch: node: [end, end]
                        found = True
                        if ks == [0, 1]:
                            r.ok(b.npath, "edge-tuple", "node: [tuple.0, tuple.1]")
                        else:
                            r.bad(Violation("WIRE-SERDE", b.npath, "edge-tuple", b.file, st["line"],
                                            "reader builds node: [tuple.%s, tuple.%s]; the writer's tuple is (source, target, w)" % (ks[0], ks[1])))
        if not found:
            r.silent += 1
            r.ok(roots[0].npath, "edge-tuple", "tuple construction not recognised (silent)")
    r.floor = 10
    return r


def from_deserialized(facts):
    o = Obl("WIRE-VALIDATE", "every Ok exit of Graph::from_deserialized / StableGraph::from_deserialized is dominated by the edge-property check, "
                             "both length checks against the index type and the Ok arm of link_edges (so every endpoint read from the input was "
                             "bounds-checked before the graph is handed back)")
    lim = RuleResult("WIRE-LIMIT", "the reader's length predicate rejects only lengths the writer's type cannot reach (try_add_node/try_add_edge allow "
                                   "len == max; the reader must not reject it)")
    for head, nm in (("adt:graph_impl::Graph", "Graph"), ("adt:graph_impl::stable_graph::StableGraph", "StableGraph")):
        bs = [x for x in facts.bodies if x.kind == "AssocFn" and x.name == "from_deserialized" and x.impl_trait == "serde_utils::FromDeserialized"
              and x.impl_selfhead == head]
        if not bs:
            o.r.bad(Violation("WIRE-VALIDATE", "%s::from_deserialized" % nm, "anchor-missing", "src/graph_impl/serialization.rs", 0,
                              "impl FromDeserialized for %s not found - fail closed" % nm))
        for b in bs:
            oks = []
            for i, j, st in b.stmts():
                rv = st["rv"]
                if st["lhs"]["l"] == 0 and not st["lhs"]["p"] and rv["k"] == "agg" and rv["name"] == "core::result::Result" and rv["variant"] == "Ok":
                    oks.append((i, st))
            o.check(b, "has-ok", b.line, len(oks) >= 1, "%d Ok exit(s)" % len(oks), "no Ok exit found")
            for n, (i, st) in enumerate(oks, 1):
                atoms = dom_atoms(b, i)
                # `?` Continue arms
                cont = set()
                for (e, lab, src) in atoms:
                    if isinstance(e, tuple) and e[0] == "discr" and lab == 0:
                        # `x?` (Continue arm of Try::branch(x)) or a direct `match x { Ok(..) => .. }` / `if let Ok(..) = x`
                        for s in walk_expr(e):
                            if isinstance(s, tuple) and s[0] == "call" and norm_path(s[1]["path"]) == "core::ops::Try::branch":
                                for s2 in walk_expr(s[2][0]):
                                    if isinstance(s2, tuple) and s2[0] == "call":
                                        cont.add(last_seg(callee_name(s2[1])))
                        top = e[1]
                        while isinstance(top, tuple) and top[0] in ("ref", "place", "cast"):
                            top = top[2] if top[0] == "ref" else top[1]
                        if isinstance(top, tuple) and top[0] == "call" and norm_path(top[1]["path"]) != "core::ops::Try::branch":
                            cont.add(last_seg(callee_name(top[1])))
                            for s2 in walk_expr(top):
                                if isinstance(s2, tuple) and s2[0] == "call" and last_seg(s2[1]["path"]) in ("map_err", "map", "and_then", "or_else"):
                                    for s3 in walk_expr(s2[2][0] if s2[2] else None):
                                        if isinstance(s3, tuple) and s3[0] == "call":
                                            cont.add(last_seg(callee_name(s3[1])))
                ep = "from_deserialized" in cont
                le = "link_edges" in cont
                lens = {"nodes": False, "edges": False}
                for (e, truth, src) in atoms:
                    if isinstance(e, tuple) and e[0] == "bin" and truth is True and e[1] in ("Lt", "Le") and has_call(e[2], ("len",)) and has_call(e[3], ("max",)):
                        # which vector? the element type of the Vec whose len() is compared (Node<..> / Edge<..>), not the local's name
                        for s in walk_expr(e[2]):
                            if isinstance(s, tuple) and s[0] == "call" and last_seg(s[1]["path"]) == "len":
                                ty = s[1].get("self", "") + " " + " ".join(map(str, s[1].get("targs", [])))
                                if "graph_impl::Node<" in ty:
                                    lens["nodes"] = e[1]
                                elif "graph_impl::Edge<" in ty:
                                    lens["edges"] = e[1]
                o.check(b, "ok#%d:edge-property" % n, st["line"], ep, "dominated by the Ok arm of PhantomData::<Ty>::from_deserialized(edge_property)?",
                        "an Ok exit of %s::from_deserialized is not dominated by the edge-property check" % nm)
                o.check(b, "ok#%d:link_edges" % n, st["line"], le, "dominated by the Ok arm of link_edges()",
                        "an Ok exit of %s::from_deserialized is not dominated by the Ok arm of link_edges(): endpoints from the input "
                        "would be used unchecked" % nm)
                for k, v in lens.items():
                    o.check(b, "ok#%d:len-%s" % (n, k), st["line"], bool(v), "dominated by %s.len() %s max" % (k, {"Lt": "<", "Le": "<="}.get(v, "?")),
                            "an Ok exit of %s::from_deserialized is not dominated by the length check of `%s` against the index type: an "
                            "index could alias the end() sentinel or be truncated" % (nm, k))
                    if v == "Lt":
                        lim.bad(Violation("WIRE-LIMIT", b.npath, "len-%s" % k, b.file, st["line"],
                                          "reader admits only %s.len() < max, but try_add_%s lets the writer's graph reach len == max "
                                          "(index max-1 is valid, only end() == max is reserved): such a graph serialises and fails to load"
                                          % (k, k[:-1]), {}))
                    elif v == "Le":
                        lim.ok(b.npath, "len-%s" % k, "reader admits len <= max, exactly what try_add_%s can build" % k[:-1])
    o.r.floor = 10
    lim.floor = 4
    return [o.r, lim]


def graph6_constants(facts):
    r = RuleResult("WIRE-GRAPH6", "graph6 encoder and decoder agree on the format constants: N = 63 in both files, 6 bits per byte on both sides, "
                                  "short header for order < N, long header of 18 bits = the 3 bytes the decoder reads after a first byte == N, "
                                  "adjacency bits starting after them, and the 258047 cap")
    c = facts.consts
    en, dn = c.get("graph6::graph6_encoder::N"), c.get("graph6::graph6_decoder::N")
    if en == dn == 63:
        r.ok("graph6::N", "N", "encoder N = decoder N = 63")
    else:
        r.bad(Violation("WIRE-GRAPH6", "graph6::N", "N", "src/graph6/graph6_encoder.rs", 0, "encoder N = %s, decoder N = %s (format: 63)" % (en, dn)))

    def fn(sfx):
        bs = facts.find(sfx)
        if not bs:
            r.bad(Violation("WIRE-GRAPH6", sfx, "anchor-missing", "src/graph6", 0, "%s not found - fail closed" % sfx))
            return None
        return bs[0]

    def consts_of(root):
        out = []
        for b in facts.with_closures(root):
            for _, _, st in b.stmts():
                for o_ in st["rv"].get("o", []):
                    if "const" in o_ and re.fullmatch(r"\d+", o_["const"]) and o_.get("ty") == "usize":
                        out.append(int(o_["const"]))
            for _, t in b.calls():
                for o_ in t["args"]:
                    if "const" in o_ and re.fullmatch(r"\d+", o_["const"]) and o_.get("ty") == "usize":
                        out.append(int(o_["const"]))
        return out
    b = fn("graph6::graph6_encoder::get_graph_order_as_bits")
    long_bits = None
    if b:
        atoms = []
        for i, bl in enumerate(b.blocks):
            if not bl["cleanup"] and bl["term"]["k"] == "switch" and i in b.cfg()[2]:
                from .guard import edge_atom
                a = edge_atom(b, i, "otherwise")
                if a:
                    atoms.append(a[0])
        def is_n(x):
            return isinstance(x, tuple) and x[0] == "const" and "::N" in str(x[1])

        def cval(x):
            if isinstance(x, tuple) and x[0] == "const":
                if str(x[1]).isdigit():
                    return int(x[1])
                return c.get(str(x[1]))            # a named constant of the crate (const MAX_ORDER: usize = 258047)
            return None
        # the same split written with either polarity / operand order: order < N | N <= order ; order <= 258047 | 258047 < order | ..
        short = any(isinstance(a, tuple) and a[0] == "bin" and ((a[1] == "Lt" and a[2] == ("arg", 1) and is_n(a[3])) or (a[1] == "Le" and is_n(a[2]) and a[3] == ("arg", 1)))
                    for a in atoms)
        cap = any(isinstance(a, tuple) and a[0] == "bin" and (
            (a[1] == "Le" and a[2] == ("arg", 1) and cval(a[3]) == 258047) or (a[1] == "Lt" and a[2] == ("arg", 1) and cval(a[3]) == 258048) or
            (a[1] == "Lt" and cval(a[2]) == 258047 and a[3] == ("arg", 1)) or (a[1] == "Le" and cval(a[2]) == 258048 and a[3] == ("arg", 1))) for a in atoms)
        if short and cap:
            r.ok(b.npath, "header-split", "short header iff order < N; long header iff order <= 258047")
        else:
            r.bad(Violation("WIRE-GRAPH6", b.npath, "header-split", b.file, b.line,
                            "order header conditions are not `order < N` (short) and `order <= 258047` (long): found %s" % [str(a)[:80] for a in atoms]))
        # tuple aggregates (value, nbits)
        bits = []
        for _, _, st in b.stmts():
            rv = st["rv"]
            if rv["k"] == "agg" and rv["ak"] == "tuple" and len(rv["o"]) == 2 and "const" in rv["o"][1]:
                bits.append((rv["o"][0].get("const", "order"), int(rv["o"][1]["const"])))
        # .. or passed directly: get_number_as_bits(value, width)
        for _, t in b.calls():
            if last_seg(t["f"]["path"]) == "get_number_as_bits" and len(t["args"]) == 2 and "const" in t["args"][1] and str(t["args"][1]["const"]).isdigit():
                bits.append((t["args"][0].get("const", "order"), int(t["args"][1]["const"])))
        widths = sorted(set(w for _, w in bits))
        if widths == [6, 18]:
            r.ok(b.npath, "header-widths", "header fields %s" % bits)
            long_bits = 18
        else:
            r.bad(Violation("WIRE-GRAPH6", b.npath, "header-widths", b.file, b.line, "header field widths %s, expected 6 and 18 bits" % bits))
    d = fn("graph6::graph6_decoder::get_order_bytes_and_adj_matrix_bytes")
    if d:
        cs = sorted(set(consts_of(d)))
        atoms = []
        for i, bl in enumerate(d.blocks):
            if not bl["cleanup"] and bl["term"]["k"] == "switch" and i in d.cfg()[2]:
                from .guard import edge_atom
                a = edge_atom(d, i, "otherwise")
                if a:
                    atoms.append(a[0])
        eqn = any(isinstance(a, tuple) and a[0] == "bin" and a[1] in ("Eq", "Ne") and any(isinstance(s, tuple) and s[0] == "const" and "::N" in str(s[1]) for s in walk_expr(a)) for a in atoms)
        # ranges 1..=3 and 4..
        ok_ranges = set(cs) >= {1, 3, 4}
        if eqn and ok_ranges and (long_bits is None or long_bits == 6 * 3):
            r.ok(d.npath, "long-header-bytes", "first byte == N => order in bytes[1..=3] (3 x 6 = 18 bits), matrix from bytes[4..]; else bytes[0], matrix from bytes[1..]")
        else:
            r.bad(Violation("WIRE-GRAPH6", d.npath, "long-header-bytes", d.file, d.line,
                            "decoder header split does not match the encoder: first-byte test on N: %s, slice constants %s (expected 1..=3 and 4..), "
                            "encoder long header %s bits" % (eqn, cs, long_bits)))
    for sfx, side in (("graph6::graph6_encoder::bits_to_ascii", "encoder"), ("graph6::graph6_decoder::bytes_vector_to_bits_vector", "decoder")):
        x = fn(sfx)
        if x:
            cs = set(consts_of(x))
            if 6 in cs and not (cs & {5, 7, 8}):
                r.ok(x.npath, "bits-per-byte", "%s uses 6 bits per byte" % side)
            else:
                r.bad(Violation("WIRE-GRAPH6", x.npath, "bits-per-byte", x.file, x.line, "%s byte width constants %s, expected 6" % (side, sorted(cs))))
    r.floor = 6
    return r
