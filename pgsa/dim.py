"""DIM - index-space dimension analysis (DESIGN 3.1).

DIM-HINT / DIM-CARD / DIM-CARD-E / DIM-RAW / DIM-STRIDE.
"""
import re
from collections import defaultdict

from .core import op_place, op_local, callee_name, last_seg, norm_path, strip_ref, proj_fields
from .report import RuleResult, Violation
from .taint import Taint

TRAIT_SRC = {
    "visit::NodeCount::node_count": "CARD_N",
    "visit::EdgeCount::edge_count": "CARD_E",
    "visit::NodeIndexable::node_bound": "BOUND_N",
    "visit::EdgeIndexable::edge_bound": "BOUND_E",
    "visit::NodeIndexable::to_index": "IDX_N",
    "visit::EdgeIndexable::to_index": "IDX_E",
}
INHERENT_SRC = {"node_count": "CARD_N", "edge_count": "CARD_E", "node_bound": "BOUND_N", "edge_bound": "BOUND_E"}
FIELD_SRC = {  # (adt, field) -> tag
    ("graph_impl::stable_graph::StableGraph", "node_count"): "CARD_N",
    ("graph_impl::stable_graph::StableGraph", "edge_count"): "CARD_E",
    ("matrix_graph::MatrixGraph", "nb_edges"): "CARD_E",
}
GRAPH_ADTS = ("graph_impl::Graph", "graph_impl::stable_graph::StableGraph", "matrix_graph::MatrixGraph",
              "csr::Csr", "adj::List", "graphmap::GraphMap")

# callee (normalised path) -> index of the argument that becomes the container's LENGTH
LEN_SINKS = {
    "alloc::vec::from_elem": 1,
    "alloc::vec::Vec::resize": 1,
    "alloc::vec::Vec::resize_with": 1,
    "fixedbitset::FixedBitSet::with_capacity": 0,
    "fixedbitset::FixedBitSet::grow": 1,
    "fixedbitset::FixedBitSet::grow_and_insert": 1,
    "unionfind::UnionFind::new": 0,
}
# never length sinks (capacity only) - listed for the evidence
CAP_SINKS = ("with_capacity", "reserve", "reserve_exact", "with_capacity_and_hasher", "add_node_with_capacity")

INDEX_OPS = {
    "core::ops::Index::index": (0, 1), "core::ops::IndexMut::index_mut": (0, 1),
    "fixedbitset::FixedBitSet::put": (0, 1), "fixedbitset::FixedBitSet::set": (0, 1),
    "fixedbitset::FixedBitSet::contains": (0, 1), "fixedbitset::FixedBitSet::insert": (0, 1),
    "core::slice::<impl [T]>::get": (0, 1), "core::slice::<impl [T]>::get_mut": (0, 1),
}

COUNT_TAGS = ("CARD_N", "CARD_E", "BOUND_N", "BOUND_E", "HINT")


def graph_key(f):
    g = strip_ref(f.get("self", ""))
    if g.startswith("Alias("):
        m = re.search(r"args: \[([^\]]*)\].*::(\w+)\)", g)
        if m:
            return "<%s>::%s" % (m.group(1), m.group(2))
    return g


def is_type_param(g):
    return re.fullmatch(r"\w+/#\d+", g) is not None


def adt_head(g):
    m = re.match(r"([\w:]+)", g)
    return m.group(1) if m else g


class DimTaint(Taint):
    def __init__(self, facts, summary_mode=False, len_summ=None, ret_summ=None):
        super().__init__(facts)
        self.summary_mode = summary_mode
        self.len_summ = len_summ or {}
        self.ret_summ = ret_summ or {}

    def seed(self, b, st):
        if self.summary_mode and b.kind != "Closure":
            for i in range(1, b.argc + 1):
                st[i].add(("PARAM", i))

    def source_call(self, b, blk, t):
        f = t["f"]
        p = f["path"]
        np_ = norm_path(p)
        tag = TRAIT_SRC.get(np_)
        out = set()
        if tag:
            out.add((tag, graph_key(f)))
        elif f.get("crate") == "petgraph" and not f.get("trait"):
            nm = last_seg(p)
            sh = f.get("selfhead", "")
            if nm in INHERENT_SRC and sh.startswith("adt:") and sh[4:] in GRAPH_ADTS:
                out.add((INHERENT_SRC[nm], graph_key(f)))
        if np_ == "core::iter::Iterator::size_hint" or np_ == "core::iter::ExactSizeIterator::len" and False:
            out.add(("HINT", graph_key(f)))
        if f.get("trait") == "petgraph::graph::IndexType" or np_ in ("graph_impl::IndexType::index", "graph_impl::GraphIndex::index"):
            pass
        if np_ in ("graph_impl::IndexType::index", "graph_impl::GraphIndex::index"):
            s = f.get("self", "")
            m = re.search(r"<(\w+/#\d+) as (?:petgraph::)?visit::GraphBase>::NodeId", s) or \
                re.search(r"Alias\(.*\[(\w+/#\d+)\].*NodeId", s)
            if m:
                out.add(("RAW", m.group(1)))
            elif f.get("selfhead", "").startswith("alias:") and "NodeId" in s:
                m2 = re.search(r"(\w+/#\d+)", s)
                if m2:
                    out.add(("RAW", m2.group(1)))
        if np_ == "visit::Visitable::visit_map":
            out.add(("LEN_BOUND_N", graph_key(f)))
        return out

    def source_place(self, b, place):
        out = set()
        for x in place["p"]:
            if isinstance(x, dict) and "f" in x:
                tag = FIELD_SRC.get((x.get("a", ""), x.get("n", "")))
                if tag:
                    g = strip_ref(b.lty(place["l"])) if len(proj_fields(place["p"])) == 1 else x.get("a", "")
                    out = {(tag, x.get("a", ""))}
        return out

    def local_passthrough(self, b, t):
        np_ = callee_name(t["f"])
        return np_ in self.ret_summ and bool(self.ret_summ[np_])

    def passthrough(self, b, t):
        if last_seg(t["f"]["path"]) in ("next", "into_iter", "rev", "iter", "by_ref") and t["f"].get("crate") != "petgraph":
            return "LOOP"
        return super().passthrough(b, t)

    def analyse_body(self, b, st):
        ch = super().analyse_body(b, st)
        # loop ranges: Range { start, end } with a node-count end => the loop variable carries LOOP_CARD_N(g)
        for _, _, stm in b.stmts():
            rv = stm["rv"]
            if rv["k"] == "agg" and rv["ak"] == "adt" and rv["name"] in ("core::ops::Range", "core::ops::RangeInclusive") and len(rv["o"]) >= 2:
                ts = self.tags_of_op(b, st, rv["o"][1])
                new = {("LOOP_" + k, g) for (k, g) in ts if k in ("CARD_N", "CARD_E")}
                d = self.key(b, stm["lhs"])
                if new and not new <= st[d]:
                    st[d] |= new
                    ch = True
        # containers: result of a length sink carries LEN_<tag>(g)
        for i, t in b.calls():
            np_ = norm_path(t["f"]["path"])
            if np_ in ("alloc::vec::from_elem", "fixedbitset::FixedBitSet::with_capacity", "unionfind::UnionFind::new"):
                ai = LEN_SINKS[np_]
                if ai < len(t["args"]):
                    ts = self.tags_of_op(b, st, t["args"][ai])
                    new = {("LEN_" + k, g) for (k, g) in ts if k in ("CARD_N", "BOUND_N")}
                    d = self.key(b, t["dest"])
                    if new and not new <= st[d]:
                        st[d] |= new
                        ch = True
        return ch


def _compact(facts, root, g):
    """True / False / None (unknown): is graph key g known compact in the environment of `root`?"""
    if is_type_param(g):
        has_ix = any(st == g and tr == "visit::NodeIndexable" for (st, tr) in root.preds)
        has_c = any(st == g and tr == "visit::NodeCompactIndexable" for (st, tr) in root.preds)
        if has_c:
            return True
        return False if has_ix or True else None
    head = adt_head(g)
    if "::" not in head and not facts.adts.get(head):
        return None
    impls = [i for i in facts.impls if i["trait"] == "visit::NodeCompactIndexable" and i["selfhead"] == "adt:" + head]
    if not impls:
        if head in facts.adts:
            return False
        return None
    # conditional impls (wrappers): every type-parameter argument must itself be compact here
    for m in re.finditer(r"(\w+/#\d+)", g):
        a = m.group(1)
        needs = any(tr == "visit::NodeCompactIndexable" for i in impls for (st, tr) in i["preds"])
        if needs and any(st == a and tr == "visit::NodeIndexable" for (st, tr) in root.preds) and \
                not any(st == a and tr == "visit::NodeCompactIndexable" for (st, tr) in root.preds):
            return False
    return True


def compute_summaries(facts):
    """param -> length-sink and param -> return summaries for crate-local fns (inlining bound 2)."""
    len_summ, ret_summ = {}, {}
    roots = [b for b in facts.bodies if b.kind in ("Fn", "AssocFn") and b.argc > 0]
    for _round in range(2):
        new_len, new_ret = dict(len_summ), dict(ret_summ)
        for root in roots:
            tt = DimTaint(facts, summary_mode=True, len_summ=len_summ, ret_summ=ret_summ)
            group = tt.run_group(root)
            ps = set()
            for b in group:
                for (ai_tags, _t, _blk, _what) in _sinks(tt, b, len_summ):
                    for tag in ai_tags:
                        if tag[0] == "PARAM":
                            ps.add(tag[1])
            if ps:
                new_len[root.npath] = ps
            rs = {tag[1] for tag in tt.ret.get(root.path, set()) if tag[0] == "PARAM"}
            # only scalar-returning helpers are treated as pass-through
            if rs and root.lty(0) in ("usize", "u32", "u64"):
                new_ret[root.npath] = rs
        len_summ, ret_summ = new_len, new_ret
    return len_summ, ret_summ


def _sinks(tt, b, len_summ):
    """yield (tags of the length argument, call term, blk, description) for every length-sink call in b"""
    st = tt.state[b.path]
    for i, t in b.calls():
        f = t["f"]
        np_ = norm_path(f["path"])
        ai = LEN_SINKS.get(np_)
        what = np_
        if ai is None:
            cn = callee_name(f)
            if f.get("crate") == "petgraph" and cn in len_summ:
                for pi in sorted(len_summ[cn]):
                    if pi - 1 < len(t["args"]):
                        yield tt.tags_of_op(b, st, t["args"][pi - 1]), t, i, "%s (summary: param %d -> length)" % (cn, pi)
            continue
        if ai < len(t["args"]):
            yield tt.tags_of_op(b, st, t["args"][ai]), t, i, what


def _uses_edge_index(facts, root, g):
    for b in facts.with_closures(root):
        for _, t in b.calls():
            if norm_path(t["f"]["path"]) == "visit::EdgeIndexable::to_index" and graph_key(t["f"]) == g:
                return True
    return False


def run(facts, scope=None, rules=("DIM-HINT", "DIM-CARD", "DIM-CARD-E", "DIM-RAW")):
    """scope: predicate on root Body (None = whole crate). Returns dict rule -> RuleResult."""
    res = {
        "DIM-HINT": RuleResult("DIM-HINT", "an Iterator::size_hint component never becomes the length of a container"),
        "DIM-CARD": RuleResult("DIM-CARD", "a node_count()/edge_count() value never becomes the length of a container in "
                                           "a context where the graph is not known compact (no NodeCompactIndexable), "
                                           "since such containers are indexed by to_index() < node_bound()"),
        "DIM-RANGE": RuleResult("DIM-RANGE", "a loop over 0..node_count() (0..edge_count()) never turns its loop variable into a node (edge) index of a graph "
                                             "that is not known compact: live elements with index >= count would never be visited"),
        "DIM-RAW": RuleResult("DIM-RAW", "a raw NodeId::index() of a generic graph never indexes a container whose length is "
                                         "node_bound()/node_count() of that graph (only to_index() is an index)"),
    }
    len_summ, ret_summ = compute_summaries(facts)
    roots = [b for b in facts.bodies if b.kind in ("Fn", "AssocFn")]
    nsites = 0
    for root in roots:
        if scope is not None and not scope(root):
            continue
        if "quickcheck" in root.file or root.file.endswith("generate.rs"):
            continue
        tt = DimTaint(facts, len_summ=len_summ, ret_summ=ret_summ)
        group = tt.run_group(root)
        for b in group:
            for (tags, t, blk, what) in _sinks(tt, b, len_summ):
                gt = {x for x in tags if x[0] in COUNT_TAGS}
                if not gt:
                    continue
                nsites += 1
                line = t["line"]
                verdicts = []
                for (k, g) in sorted(gt):
                    site = "%s<-%s(%s)" % (last_seg(what.split(" ")[0]), k, g)
                    if k == "HINT":
                        v = Violation("DIM-HINT", b.npath, site, b.file, line,
                                      "length of %s is an Iterator::size_hint() component (a lower bound, 0 for "
                                      "StableGraph/filtered iterators), but the container is indexed by graph indices" % what,
                                      {"sink": what, "tags": sorted(map(str, tags))})
                        res["DIM-HINT"].bad(v)
                        verdicts.append("HINT")
                    elif k == "CARD_N":
                        c = _compact(facts, root, g)
                        if c is False:
                            v = Violation("DIM-CARD", b.npath, site, b.file, line,
                                          "length of %s is node_count() of %s, which is not known compact here (no "
                                          "NodeCompactIndexable bound/impl): to_index() may be >= node_count()" % (what, g),
                                          {"sink": what, "graph": g})
                            res["DIM-CARD"].bad(v)
                            verdicts.append("CARD_N non-compact")
                        else:
                            res["DIM-CARD"].ok(b.npath, site, "graph %s is compact here (%s)" % (g, "NodeCompactIndexable in env/impl table" if c else "unknown type: silent"))
                    elif k == "CARD_E":
                        if _uses_edge_index(facts, root, g):
                            v = Violation("DIM-CARD", b.npath, site, b.file, line,
                                          "length of %s is edge_count() of %s and the function indexes by "
                                          "EdgeIndexable::to_index() (< edge_bound(), not < edge_count())" % (what, g),
                                          {"sink": what, "graph": g})
                            res["DIM-CARD"].bad(v)
                        else:
                            res["DIM-CARD"].ok(b.npath, site, "edge_count-sized, function never uses EdgeIndexable::to_index on %s" % g)
                    else:
                        res["DIM-CARD"].ok(b.npath, site, "bound-sized")
                        res["DIM-HINT"].ok(b.npath, site, "not a size_hint")
            # DIM-RANGE
            st = tt.state[b.path]
            for i, t in b.calls():
                f = t["f"]
                cn = callee_name(f)
                np_ = norm_path(f["path"])
                kind = None
                if cn in ("graph_impl::node_index", "graph_impl::NodeIndex::new") or np_ == "visit::NodeIndexable::from_index":
                    kind = "N"
                elif cn in ("graph_impl::edge_index", "graph_impl::EdgeIndex::new") or np_ == "visit::EdgeIndexable::from_index":
                    kind = "E"
                if kind is None or not t["args"]:
                    continue
                tags = tt.tags_of_op(b, st, t["args"][-1])
                for (k, g) in sorted(tags):
                    if k != "LOOP_CARD_" + kind:
                        continue
                    site = "%s<-0..%s(%s)" % (last_seg(cn), "node_count" if kind == "N" else "edge_count", g)
                    noncompact = (_compact(facts, root, g) is False) if kind == "N" else adt_head(g) == "graph_impl::stable_graph::StableGraph"
                    if noncompact:
                        res["DIM-RANGE"].bad(Violation("DIM-RANGE", b.npath, site, b.file, t["line"],
                                                       "the loop variable of 0..%s() of %s is used as a%s index, but %s is not known compact: "
                                                       "elements whose index is >= the count are never visited"
                                                       % ("node_count" if kind == "N" else "edge_count", g, " node" if kind == "N" else "n edge", g), {}))
                    else:
                        res["DIM-RANGE"].ok(b.npath, site, "count-bounded loop over a compact index space")
            # DIM-RAW
            for i, t in b.calls():
                f = t["f"]
                np_ = norm_path(f["path"])
                io = INDEX_OPS.get(np_)
                if io is None or len(t["args"]) < 2:
                    continue
                ct = tt.tags_of_op(b, st, t["args"][io[0]])
                it = tt.tags_of_op(b, st, t["args"][io[1]])
                lens = {(k, g) for (k, g) in ct if k.startswith("LEN_")}
                if not lens:
                    continue
                raws = {(k, g) for (k, g) in it if k == "RAW"}
                idxs = {(k, g) for (k, g) in it if k in ("IDX_N",)}
                for (lk, lg) in sorted(lens):
                    hit = [r for r in raws if r[1] == lg]
                    site = "%s[%s]" % (lk, lg)
                    if hit and not idxs:
                        v = Violation("DIM-RAW", b.npath, "index(%s)<-RAW" % site, b.file, t["line"],
                                      "a container of length %s(%s) is indexed by NodeId::index() of the generic graph %s; "
                                      "only NodeIndexable::to_index() is guaranteed < node_bound() (e.g. GraphMap<u32> ids "
                                      "are arbitrary numbers)" % (lk[4:], lg, lg), {"op": np_})
                        res["DIM-RAW"].bad(v)
                    elif idxs or raws:
                        res["DIM-RAW"].ok(b.npath, "index(%s)" % site, "indexed through to_index()" if idxs else "raw index of another graph: silent")
    res["DIM-CARD"].notes.append("length-sink sites carrying a graph dimension tag: %d" % nsites)
    res["DIM-CARD"].notes.append("crate-local length summaries: %s" % {k: sorted(v) for k, v in len_summ.items()})
    res["_nsites"] = nsites
    return res


def stride(facts):
    """DIM-STRIDE over every impl of GetAdjacencyMatrix."""
    r = RuleResult("DIM-STRIDE", "in each GetAdjacencyMatrix impl the row stride used to build the bit matrix and the one "
                                 "used by is_adjacent are the same quantity, and it is node_bound() for non-compact types")
    len_summ, ret_summ = {}, {}
    by_impl = defaultdict(dict)
    for b in facts.bodies:
        if b.impl_trait == "visit::GetAdjacencyMatrix" and b.kind == "AssocFn" and b.name in ("adjacency_matrix", "is_adjacent"):
            by_impl[b.impl_self][b.name] = b
    for selfty, ms in sorted(by_impl.items()):
        strides = {}
        for nm, b in ms.items():
            tt = DimTaint(facts)
            group = tt.run_group(b)
            tags = set()
            nmul = 0
            for gb in group:
                st = tt.state[gb.path]
                for _, _, s in gb.stmts():
                    rv = s["rv"]
                    if rv["k"] == "bin" and rv["op"].startswith("Mul"):
                        nmul += 1
                        for o in rv["o"]:
                            for (k, g) in tt.tags_of_op(gb, st, o):
                                if k in ("CARD_N", "BOUND_N"):
                                    tags.add(k)
            strides[nm] = (tags, nmul)
        if not all(n in strides for n in ("adjacency_matrix", "is_adjacent")):
            continue
        a, i = strides["adjacency_matrix"], strides["is_adjacent"]
        site = "stride"
        fn = "impl GetAdjacencyMatrix for %s" % selfty
        bb = ms["is_adjacent"]
        if a[1] == 0 and i[1] == 0:
            r.ok(fn, site, "no bit-matrix stride (delegating or native matrix)")
            continue
        head = adt_head(strip_ref(selfty))
        compact = facts.has_impl("visit::NodeCompactIndexable", "adt:" + head)
        if a[0] != i[0] or len(a[0]) != 1:
            if a[0] and i[0]:
                v = Violation("DIM-STRIDE", bb.npath, "stride", bb.file, bb.line,
                              "adjacency_matrix multiplies by %s but is_adjacent by %s: after a removal the two address "
                              "different bits" % (sorted(a[0]), sorted(i[0])), {"type": selfty})
                r.bad(v)
            else:
                r.silent += 1
                r.ok(fn, site, "stride provenance not recognised (silent): %s / %s" % (sorted(a[0]), sorted(i[0])))
            continue
        tag = next(iter(a[0]))
        if not compact and tag != "BOUND_N":
            v = Violation("DIM-STRIDE", bb.npath, "stride-count", bb.file, bb.line,
                          "%s is not NodeCompactIndexable but its adjacency bit matrix uses node_count() as row stride" % selfty,
                          {"type": selfty})
            r.bad(v)
        else:
            r.ok(fn, site, "both methods use %s; type compact=%s" % (tag, compact))
    r.floor = 3
    return r
