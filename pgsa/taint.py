"""Flow-insensitive, field-insensitive tag propagation over one function and its closures.

Tags are arbitrary hashable values. A *group* is a typeck root (fn) plus all closures nested in it;
closure captures are connected to the values captured at the closure-construction site, and calls
of a local closure value return the closure's return tags.
"""
from collections import defaultdict

from .core import op_place, op_local, callee_name, last_seg

ARITH = ("Add", "Sub", "Mul", "Div", "Rem", "Shl", "Shr", "BitAnd", "BitOr", "BitXor")

# std functions whose result carries the tags of their arguments
PASS_LAST = {
    "max", "min", "clone", "deref", "deref_mut", "into", "from", "unwrap", "unwrap_or", "unwrap_or_default",
    "expect", "borrow", "borrow_mut", "as_ref", "as_mut", "to_owned", "saturating_add", "saturating_sub",
    "wrapping_add", "wrapping_sub", "checked_add", "checked_sub", "pow", "next_power_of_two", "try_into",
    "try_from", "copied", "cloned", "get", "ok", "unwrap_unchecked", "new",
    # Option / iterator plumbing: the value (or the elements) of the receiver come out again
    "chain", "or", "or_else", "ok_or", "ok_or_else", "filter", "take", "skip", "rev", "by_ref", "peekable", "flatten", "zip", "then_some",
    "unwrap_or_else", "into_iter", "iter", "iter_mut", "next", "next_back", "last", "nth", "find", "expect_err", "as_deref", "as_deref_mut",
}


class Taint:
    def __init__(self, facts):
        self.facts = facts
        self.state = {}        # body.path -> defaultdict(set)
        self.ret = {}          # body.path -> set (tags of the return place)
        self._parent_sites = None

    # ---- hooks (override) -------------------------------------------------
    def source_call(self, b, blk, t):
        return set()

    def source_place(self, b, place):
        return set()

    def passthrough(self, b, t):
        """True if the call result carries its arguments' tags"""
        f = t["f"]
        if f.get("crate") == "petgraph":
            return self.local_passthrough(b, t)
        return last_seg(f["path"]) in PASS_LAST

    def local_passthrough(self, b, t):
        return False

    def bin_result(self, op, ta, tb):
        if op.startswith(ARITH):
            return ta | tb
        return set()

    # ---- machinery --------------------------------------------------------
    def key(self, b, place):
        if b.kind == "Closure" and place["l"] == 1:
            for x in place["p"]:
                if x == "*":
                    continue
                if isinstance(x, dict) and "f" in x:
                    return ("up", x["f"])
                break
        return place["l"]

    def tags_of_place(self, b, st, place):
        t = set(st[self.key(b, place)])
        t |= self.source_place(b, place)
        return t

    def tags_of_op(self, b, st, o):
        p = op_place(o)
        if p is None:
            return set()
        return self.tags_of_place(b, st, p)

    def seed(self, b, st):
        pass

    def analyse_body(self, b, st):
        changed = False

        def add(k, ts):
            nonlocal changed
            if ts and not ts <= st[k]:
                st[k] |= ts
                changed = True

        for i, bl in enumerate(b.blocks):
            if bl["cleanup"]:
                continue
            for s in bl["st"]:
                rv = s["rv"]
                k = rv["k"]
                lhs = self.key(b, s["lhs"])
                if k in ("use", "cast", "un", "repeat"):
                    for o in rv["o"]:
                        add(lhs, self.tags_of_op(b, st, o))
                elif k in ("ref", "rawptr"):
                    add(lhs, self.tags_of_place(b, st, rv["pl"]))
                elif k == "bin":
                    ta = self.tags_of_op(b, st, rv["o"][0])
                    tb = self.tags_of_op(b, st, rv["o"][1])
                    add(lhs, self.bin_result(rv["op"], ta, tb))
                elif k == "agg":
                    if rv["ak"] == "closure":
                        cb = self.facts.body(rv["name"])
                        if cb is not None and cb.path in self.state:
                            cst = self.state[cb.path]
                            for ui, o in enumerate(rv["o"]):
                                ts = self.tags_of_op(b, st, o)
                                if ts and not ts <= cst[("up", ui)]:
                                    cst[("up", ui)] |= ts
                                    changed = True
                        add(lhs, {("CLOSURE", rv["name"])})
                    else:
                        for o in rv["o"]:
                            add(lhs, self.tags_of_op(b, st, o))
            t = bl["term"]
            if t["k"] == "call":
                dest = self.key(b, t["dest"])
                f = t["f"]
                if "path" in f:
                    add(dest, self.source_call(b, i, t))
                    pt = self.passthrough(b, t)
                    if pt:
                        for a in t["args"]:
                            add(dest, {x for x in self.tags_of_op(b, st, a) if x[0] != "CLOSURE" and (pt is True or x[0].startswith(pt))})
                    # calls of closures: Fn::call(&closure, (args,))
                    if f.get("trait") in ("core::ops::Fn", "core::ops::FnMut", "core::ops::FnOnce") and t["args"]:
                        for tag in self.tags_of_op(b, st, t["args"][0]):
                            if tag[0] == "CLOSURE" and tag[1] in self.ret:
                                add(dest, self.ret[tag[1]])
                    # a closure handed to a std adaptor receives the receiver's value / elements as its parameter
                    if f.get("crate") != "petgraph" and len(t["args"]) >= 2:
                        recv = {x for x in self.tags_of_op(b, st, t["args"][0]) if x[0] != "CLOSURE"}
                        if recv:
                            for a in t["args"][1:]:
                                for tag in self.tags_of_op(b, st, a):
                                    if tag[0] == "CLOSURE" and tag[1] in self.state:
                                        cst = self.state[tag[1]]
                                        if not recv <= cst[2]:
                                            cst[2] |= recv
                                            changed = True
                    # closures passed to iterator adaptors (map/filter_map): result carries closure's return
                    if f.get("crate") != "petgraph" and last_seg(f["path"]) in ("map", "filter_map", "flat_map", "and_then", "then", "map_or", "unwrap_or_else"):
                        for a in t["args"]:
                            for tag in self.tags_of_op(b, st, a):
                                if tag[0] == "CLOSURE" and tag[1] in self.ret:
                                    add(dest, self.ret[tag[1]])
        r = {x for x in st[0] if x[0] != "CLOSURE"}
        if r != self.ret.get(b.path):
            self.ret[b.path] = r
            changed = True
        return changed

    def run_group(self, root):
        group = self.facts.with_closures(root)
        for b in group:
            st = defaultdict(set)
            self.state[b.path] = st
            self.ret[b.path] = set()
            self.seed(b, st)
        for _ in range(12):
            ch = False
            for b in group:
                if self.analyse_body(b, self.state[b.path]):
                    ch = True
            if not ch:
                break
        return group

    def tags(self, b, o):
        return self.tags_of_op(b, self.state[b.path], o)

    def ltags(self, b, l):
        return set(self.state[b.path][l])
