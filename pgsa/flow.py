"""FLOW-THROUGH - must-pass-through / sanitiser / effect rules (DESIGN 3.10)."""
import re

from .core import op_place, op_local, callee_name, last_seg, norm_path, walk_expr
from .report import RuleResult, Violation
from .guard import dom_atoms, has_call, Obl, reach, roots_named, named_roots
from .tag import leaves, strip_casts


def project(e):
    """resolve field projections into aggregates: (agg ops).k -> ops[k]; derefs of refs collapse"""
    for _ in range(8):
        if not (isinstance(e, tuple) and e[0] == "place"):
            return e
        base, proj = e[1], list(e[2])
        changed = False
        while proj:
            x = proj[0]
            if x == "*" and isinstance(base, tuple) and base[0] == "ref":
                base = base[2]
                proj.pop(0)
                changed = True
            elif isinstance(x, tuple) and x[0] == "f" and isinstance(base, tuple) and base[0] == "agg" and x[1] < len(base[3]):
                base = base[3][x[1]]
                proj.pop(0)
                changed = True
            elif isinstance(base, tuple) and base[0] == "place":
                nb = project(base)
                if nb == base:
                    break
                base = nb
                changed = True
            else:
                break
        e = ("place", base, tuple(proj)) if proj else base
        if not changed:
            return e
    return e


def acyclic(facts):
    o = Obl("FLOW-ACYCLIC", "Acyclic: the inner graph's add_edge/update_edge is reached only after the self-loop test and the Ok arm of "
                            "update_ordering; the scratch bit sets are cleared on every path from the cone DFS to the return (also on Err); "
                            "Graph::remove_node (which renumbers the last node) is followed by re-keying the order map; add_node/remove_node "
                            "update graph and order map together")
    n_ins = 0
    for b in facts.bodies:
        if b.kind not in ("AssocFn", "Closure") or not b.file.startswith("src/acyclic"):
            continue
        if not b.impl_selfhead.endswith("acyclic::Acyclic"):
            continue
        for i, t in b.calls():
            f = t["f"]
            if norm_path(f["path"]) in ("data::Build::add_edge", "data::Build::update_edge") and "Acyclic" not in f.get("self", ""):
                n_ins += 1
                atoms = dom_atoms(b, i)
                a_roots = named_roots(b, t["args"][1]) if len(t["args"]) > 2 else set()
                b_roots = named_roots(b, t["args"][2]) if len(t["args"]) > 2 else set()
                selfloop = False
                for (e, truth, src) in atoms:
                    if isinstance(e, tuple) and e[0] == "bin" and truth is True and e[1] == "Ne":
                        r1, r2 = roots_named(b, e[2]), roots_named(b, e[3])
                        if (r1 & a_roots and r2 & b_roots) or (r1 & b_roots and r2 & a_roots):
                            selfloop = True
                ordered = False
                for (e, lab, src) in atoms:
                    if isinstance(e, tuple) and e[0] == "discr" and lab == 0:
                        for s in walk_expr(e):
                            if isinstance(s, tuple) and s[0] == "call" and callee_name(s[1]).endswith("Acyclic::update_ordering"):
                                ordered = True
                o.check(b, "insert#%d:%s" % (n_ins, last_seg(f["path"])), t["line"], selfloop and ordered,
                        "inner %s dominated by a != b and by update_ordering(a, b)? == Ok" % last_seg(f["path"]),
                        "the inner graph's %s is reachable without %s: a cycle-closing (or self-loop) edge could be inserted"
                        % (last_seg(f["path"]), "the self-loop test" if not selfloop else "the Ok arm of update_ordering"))
    o.check(facts.bodies[0], "insert-sites", 0, n_ins >= 2, "%d inner insert site(s)" % n_ins, "expected >= 2 inner add_edge/update_edge sites in acyclic.rs") \
        if n_ins < 2 else o.r.ok("acyclic", "insert-sites", "%d inner insert site(s)" % n_ins)
    # scratch reset in causal_cones
    for b in o.need_fn(facts, "acyclic::Acyclic::causal_cones"):
        dfs_calls = [i for i, t in b.calls() if norm_path(t["f"]["path"]) in ("core::ops::FnMut::call_mut", "core::ops::FnOnce::call_once", "core::ops::Fn::call")
                     or last_seg(callee_name(t["f"])) in ("future_cone", "past_cone")]
        sets = []
        for i, t in b.calls():
            if last_seg(t["f"]["path"]) in ("set", "clear", "remove", "toggle", "set_range", "remove_range") and "FixedBitSet" in norm_path(t["f"]["path"]):
                lv = leaves(b.expr(t["args"][0], 12))
                fld = [x[1] for x in lv if x[0] == "field" and x[1] in ("discovered", "finished")]
                if fld:
                    sets.append((i, fld[0]))
        o.check(b, "dfs-call", b.line, len(dfs_calls) >= 1, "%d cone-DFS invocation(s)" % len(dfs_calls), "the cone DFS invocation was not found")
        both = {f for _, f in sets} >= {"discovered", "finished"}
        o.check(b, "reset-both", b.line, both, "both scratch sets are cleared (%s)" % sorted({f for _, f in sets}),
                "causal_cones does not clear both scratch bit sets (found: %s)" % sorted({f for _, f in sets}))
        if dfs_calls and both:
            succ, _, _ = b.cfg()
            # loop header(s): blocks from which a reset block is reachable and that are reachable from the reset block (the loop),
            # restricted to the iterator `next` call that drives the loop
            reset_blocks = {i for i, _ in sets}
            heads = set()
            for i, t in b.calls():
                if last_seg(t["f"]["path"]) == "next" and (reach(b, i) & reset_blocks) and any(i in reach(b, rb) for rb in reset_blocks):
                    heads.add(i)
            rets = [i for i, bl in enumerate(b.blocks) if not bl["cleanup"] and bl["term"]["k"] == "return"]
            for n, d in enumerate(dfs_calls, 1):
                escaped = [r_ for r_ in rets if r_ in reach(b, d, avoid=heads)]
                o.check(b, "reset-postdominates#%d" % n, b.blocks[d]["term"]["line"], bool(heads) and not escaped,
                        "every path from the cone DFS to a return passes through the reset loop",
                        "a path from the cone DFS to the return bypasses the loop that clears the scratch bit sets (early `?`/return): "
                        "the next cycle check starts from dirty scratch state")
    # EFFECT: Graph::remove_node renumbers -> re-key ; PAIR add/remove
    rn = [b for b in facts.bodies if b.npath == "acyclic::Acyclic::remove_node"]
    o.check(facts.bodies[0], "remove_node", 0, len(rn) >= 2, "", "Acyclic::remove_node instantiations not found") if len(rn) < 2 else None
    for b in rn:
        calls = [(i, callee_name(t["f"]), t) for i, t in b.calls()]
        inner = [(i, c) for (i, c, t) in calls if c in ("graph_impl::Graph::remove_node", "graph_impl::stable_graph::StableGraph::remove_node")]
        om_rm = [i for (i, c, t) in calls if c.endswith("OrderMap::remove_node")]
        kind = "Graph" if any(c == "graph_impl::Graph::remove_node" for _, c in inner) else "StableGraph"
        o.check(b, "%s:pair" % kind, b.line, bool(inner) and bool(om_rm), "removes the node from the inner graph and from the order map",
                "Acyclic::remove_node must remove the node from both the inner graph and the order map")
        if kind == "Graph" and inner:
            after = reach(b, inner[0][0])
            rekey = [i for (i, c, t) in calls if c.endswith("OrderMap::set_position") and i in after]
            # the position carried over must be the MOVED node's own position
            if rekey:
                st_call = [t for (i, c, t) in calls if c.endswith("OrderMap::set_position") and i in after][0]
                pe = b.expr(st_call["args"][2], 10, named_leaf=True) if len(st_call["args"]) > 2 else None
                gp = [t for (i, c, t) in calls if c.endswith("OrderMap::get_position")]
                moved_roots = set()
                for (i, c, t) in calls:
                    if c.endswith("OrderMap::remove_node") and i in after and len(t["args"]) > 1:
                        moved_roots |= named_roots(b, t["args"][1])
                src_ok = False
                for t in gp:
                    if len(t["args"]) > 1 and named_roots(b, t["args"][1]) & moved_roots:
                        dl = t["dest"]["l"]
                        if pe is not None and (("local", dl) in leaves(pe) or any(x[0] == "local" and b.lname(x[1]) and
                                                                               b.single_def(x[1]) == ("call", [i for (i, c, t2) in calls if t2 is t][0]) for x in leaves(pe))):
                            src_ok = True
                o.check(b, "Graph:rekey-source", b.line, src_ok, "the re-keyed position is get_position(moved node)",
                        "the position given to the renumbered node is not the moved node's own position (get_position(moved)): it would inherit the "
                        "removed node's position, leaving an edge that points backwards in the order")
            o.check(b, "Graph:rekey", b.line, bool(rekey), "Graph::remove_node (renumbers the last node) is followed by OrderMap::set_position (re-keying)",
                    "Graph::remove_node moves the last node into the freed index, but the order map (indexed by node index) is not re-keyed "
                    "afterwards: the moved node loses its position and the order names a dead index")
    for b in facts.bodies:
        if b.name == "add_node" and b.impl_trait == "data::Build" and b.impl_selfhead.endswith("acyclic::Acyclic"):
            cs = [callee_name(t["f"]) for _, t in b.calls()] + [norm_path(t["f"]["path"]) for _, t in b.calls()]
            ok = any(c.endswith("OrderMap::add_node") for c in cs) and any(c == "data::Build::add_node" for c in cs)
            o.check(b, "add_node:pair", b.line, ok, "adds the node to the inner graph and to the order map", "Acyclic::add_node must add the node to both")
    o.r.floor = 9
    return o.r


def dot_sanitiser(facts):
    o = Obl("FLOW-DOT", "Dot: every user-formatted weight (FnFmt) is wrapped in Escaped before it is formatted, the user formatting closures are never "
                        "called with the raw formatter, Escaped::fmt writes through an Escaper, and an edge statement prints to_index(source) before "
                        "to_index(target)")
    for root in o.need_fn(facts, "dot::Dot::graph_fmt"):
        nf = 0
        for b in facts.with_closures(root):
            # FnFmt aggregates and their uses
            for i, j, st in b.stmts():
                rv = st["rv"]
                if rv["k"] == "agg" and rv["ak"] == "adt" and rv["name"] == "dot::FnFmt":
                    nf += 1
                    l = st["lhs"]["l"]
                    wrapped = False
                    other = []
                    for i2, j2, st2 in b.stmts():
                        rv2 = st2["rv"]
                        uses = [op_local(o_) for o_ in rv2.get("o", [])] + ([rv2["pl"]["l"]] if rv2["k"] in ("ref", "rawptr") else [])
                        if l in uses:
                            if rv2["k"] == "agg" and rv2["name"] == "dot::Escaped":
                                wrapped = True
                            else:
                                other.append(st2["line"])
                    for i2, t2 in b.calls():
                        if any(op_local(a) == l for a in t2["args"]):
                            other.append(t2["line"])
                    o.check(b, "FnFmt#%d" % nf, st["line"], wrapped and not other, "FnFmt value is only used as the payload of Escaped(..)",
                            "a user-formatted weight (FnFmt) is formatted without the Escaped wrapper (other uses at lines %s): quotes, "
                            "backslashes or newlines in a label would end the quoted string early" % other)
            # direct calls of the user closures (params 3,4 of graph_fmt)
            if b is root:
                for i, t in b.calls():
                    if norm_path(t["f"]["path"]) in ("core::ops::Fn::call", "core::ops::FnMut::call_mut", "core::ops::FnOnce::call_once") and t["args"]:
                        rr = named_roots(b, t["args"][0])
                        ce = strip_casts(b.expr(t["args"][0], 8))
                        while isinstance(ce, tuple) and ce[0] == "ref":
                            ce = strip_casts(ce[2])
                        if isinstance(ce, tuple) and ce[0] == "agg":
                            continue        # a closure of graph_fmt itself that merely captures the user closure: its body is checked like graph_fmt's
                        if rr & {("arg", 3), ("arg", 4)}:
                            o.r.bad(Violation("FLOW-DOT", b.npath, "raw-call", b.file, t["line"],
                                              "graph_fmt calls a user formatting closure directly with the raw formatter (unescaped label)"))
        o.check(root, "FnFmt-sites", root.line, nf >= 2, "%d FnFmt construction(s)" % nf, "expected 2 FnFmt constructions (node and edge labels), found %d" % nf)
        # node statements print to_index(node.id()): the statement itself and the NodeIndexLabel variant
        nid = 0
        for i, j, st in root.stmts():
            rv = st["rv"]
            if rv["k"] == "agg" and rv["ak"] == "array" and len(rv["o"]) >= 1:
                for o_ in rv["o"]:
                    e = root.expr(o_, 12)
                    for s in walk_expr(e):
                        if isinstance(s, tuple) and s[0] == "call" and last_seg(s[1]["path"]).startswith("new_") and s[2]:
                            e = project(strip_casts(s[2][0]))
                            if isinstance(e, tuple) and e[0] == "ref":
                                e = project(e[2])
                            break
                    has_ix = any(isinstance(s, tuple) and s[0] == "call" and norm_path(s[1]["path"]) == "visit::NodeIndexable::to_index" for s in walk_expr(e))
                    has_id = any(isinstance(s, tuple) and s[0] == "call" and norm_path(s[1]["path"]) == "visit::NodeRef::id" for s in walk_expr(e))
                    if not (has_ix and has_id):
                        # the value may be produced by a closure of graph_fmt (`flag.then(|| g.to_index(node.id()))`) and travel through an Option
                        e3 = root.expr_at(o_, i, j, 24)
                        for s3 in walk_expr(e3):
                            if isinstance(s3, tuple) and s3[0] == "agg" and len(s3) > 1 and isinstance(s3[1], str) and "{closure" in s3[1] and facts.body(s3[1]) is not None:
                                paths3 = {norm_path(t3["f"]["path"]) for _, t3 in facts.body(s3[1]).calls()}
                                if "visit::NodeIndexable::to_index" in paths3 and "visit::NodeRef::id" in paths3:
                                    has_ix = has_id = True
                        for s in list(walk_expr(e)) + list(walk_expr(e3)):
                            if isinstance(s, tuple) and s[0] == "local":
                                for d_ in root.defs().get(s[1], []):
                                    if d_[0] == "st":
                                        rv3 = root.blocks[d_[1]]["st"][d_[2]]["rv"]
                                        if rv3["k"] == "use" and op_place(rv3["o"][0]) is not None:
                                            for s3 in walk_expr(root.expr_at({"copy": {"l": op_place(rv3["o"][0])["l"], "p": []}}, d_[1], d_[2], 10)):
                                                if isinstance(s3, tuple) and s3[0] == "agg" and len(s3) > 1 and facts.body(s3[1]) is not None:
                                                    cb3 = facts.body(s3[1])
                                                    paths3 = {norm_path(t3["f"]["path"]) for _, t3 in cb3.calls()}
                                                    if "visit::NodeIndexable::to_index" in paths3 and "visit::NodeRef::id" in paths3:
                                                        has_ix = has_id = True
                    if has_ix and has_id:
                        nid += 1
        o.check(root, "node-stmt-index", root.line, nid >= 2, "%d node id(s) printed as to_index(node.id()) (statement and NodeIndexLabel)" % nid,
                "node statements must print to_index(node.id()) (the statement id and the NodeIndexLabel label); found %d such format arguments: "
                "with an enumerate() counter instead, a graph with vacant indices declares ids that its edge statements do not use" % nid)
        # edge statement order: format arguments array containing to_index(source) ... to_index(target)
        found = False
        for i, j, st in root.stmts():
            rv = st["rv"]
            if rv["k"] == "agg" and rv["ak"] == "array" and len(rv["o"]) >= 3:
                desc = []
                for o_ in rv["o"]:
                    e = root.expr(o_, 12)
                    # Argument::new_display(&args.k) -> look through the call into the k-th component of the args tuple
                    for s in walk_expr(e):
                        if isinstance(s, tuple) and s[0] == "call" and last_seg(s[1]["path"]).startswith("new_") and s[2]:
                            e = project(strip_casts(s[2][0]))
                            if isinstance(e, tuple) and e[0] == "ref":
                                e = project(e[2])
                            break
                    d = "?"
                    for s in walk_expr(e):
                        if isinstance(s, tuple) and s[0] == "call" and last_seg(s[1]["path"]) in ("source", "target"):
                            d = last_seg(s[1]["path"])
                            break
                    via_index = any(isinstance(s, tuple) and s[0] == "call" and norm_path(s[1]["path"]) == "visit::NodeIndexable::to_index" for s in walk_expr(e))
                    desc.append((d, via_index))
                names = [d for d, _ in desc]
                if "source" in names and "target" in names:
                    found = True
                    ok = names.index("source") < names.index("target") and all(v for d, v in desc if d in ("source", "target"))
                    o.check(root, "edge-stmt-order", st["line"], ok, "edge statement prints to_index(source) then to_index(target)",
                            "edge statement format arguments are %s: expected to_index(edge.source()) before to_index(edge.target())" % desc)
        if not found:
            o.r.silent += 1
            o.r.ok(root.npath, "edge-stmt-order", "format argument array not recognised (silent)")
    # Escaped::fmt writes through an Escaper
    es = [b for b in facts.bodies if b.kind == "AssocFn" and b.name == "fmt" and b.impl_selfhead == "adt:dot::Escaped"]
    o.check(facts.bodies[0], "Escaped::fmt", 0, bool(es), "", "impl Display for Escaped not found") if not es else None
    for b in es:
        wf = [(i, t) for i, t in b.calls() if last_seg(t["f"]["path"]) == "write_fmt"]
        ok = bool(wf)
        for i, t in wf:
            e = b.expr(t["args"][0], 8)
            if not any(isinstance(s, tuple) and s[0] == "agg" and s[1] == "dot::Escaper" for s in walk_expr(e)):
                ok = False
        direct = [t["line"] for i, t in b.calls() if last_seg(t["f"]["path"]) == "fmt" and norm_path(t["f"]["path"]).startswith("core::fmt::")]
        o.check(b, "through-Escaper", b.line, ok and not direct, "%d write_fmt call(s), all into an Escaper(f)" % len(wf),
                "Escaped::fmt does not route all output through an Escaper (direct fmt calls at %s)" % direct)
    o.r.floor = 5
    return o.r
