"""Structural clauses added after the sixth round of independently seeded changes (same discipline as rules5)."""
import re

from .core import op_place, op_local, callee_name, last_seg, norm_path, walk_expr
from .report import RuleResult, Violation
from .guard import (Obl, dom_atoms, call_atom, has_call, agg_sites, calls_named, named_roots, roots_named, reach,
                    return_some_sites, deep_leaves, deep_has_call)
from .tag import leaves, strip_casts

GROW = ("push", "resize", "resize_with", "extend", "extend_from_slice", "insert", "append", "extend_from_within", "set_len", "push_within_capacity")

# functions that may lengthen Graph.nodes / Graph.edges, with the reason
MAY_GROW = {
    "graph_impl::Graph::try_add_node": "carries the index-type limit test (GUARD-LIMIT)",
    "graph_impl::Graph::try_add_edge": "carries the index-type limit test (GUARD-LIMIT)",
    "graph_impl::stable_graph::StableGraph::try_add_edge": "carries the index-type limit test (GUARD-LIMIT)",
    "graph_impl::stable_graph::StableGraph::add_vacant_edge": "pads the edge vector up to an index the caller already holds (extend_with_edges / deserialisation), "
                                                              "the index itself is an Ix so it is below the limit",
}


def _graph_slot_field(e):
    """'nodes' / 'edges' if the expression is (a projection of) a slot vector of graph_impl::Graph"""
    for s in walk_expr(e):
        if isinstance(s, tuple) and s[0] == "place":
            for x in s[2]:
                if isinstance(x, tuple) and x[0] == "f" and x[2] in ("nodes", "edges") and x[3] == "graph_impl::Graph":
                    return x[2]
    return None


def who_grows(facts):
    r = RuleResult("WHO-GROWS", "the slot vectors of Graph (`nodes`, `edges`; StableGraph's through `g`) are lengthened (push / resize / extend / insert / "
                                "append) only inside the functions that carry the index-type limit obligation - every other method creates slots by calling "
                                "them, so `Ix::max()` (the `end()` sentinel) can never become a live index")
    n = 0
    for b in facts.bodies:
        if not b.file.startswith("src/graph_impl") or b.kind not in ("AssocFn", "Fn", "Closure") or "serialization" in b.file:
            continue
        for i, t in b.calls():
            nm = last_seg(t["f"]["path"])
            if nm not in GROW or "Vec" not in norm_path(t["f"]["path"]) or not t["args"]:
                continue
            fld = _graph_slot_field(b.expr(t["args"][0], 8))
            if fld is None:
                continue
            n += 1
            owner = b.npath.split("::{closure")[0]
            if owner in MAY_GROW:
                r.ok(b.npath, "%s.%s" % (fld, nm), MAY_GROW[owner])
            else:
                r.bad(Violation("WHO-GROWS", b.npath, "%s.%s" % (fld, nm), b.file, t["line"],
                                "Graph.%s is lengthened by Vec::%s outside try_add_node / try_add_edge: the index-type limit test is bypassed, so a u8/u16 "
                                "graph can get a live slot at Ix::max() (= NodeIndex::end()) and later additions wrap around" % (fld, nm)))
    r.floor = 4
    r.floor_what = "slot-vector growth sites"
    return r


def index_directed_creation(facts):
    o = Obl("WHO-ALLOC", "StableGraph::ensure_node_exists(ix) (behind extend_with_edges / from_edges) makes exactly the index it was given live: it never "
                         "reaches StableGraph::add_node / try_add_node, whose index is chosen by the free list")
    for b0 in o.need_fn(facts, "graph_impl::stable_graph::StableGraph::ensure_node_exists"):
        seen, stack, hit = set(), [b0], []
        while stack:
            b = stack.pop()
            if b.npath in seen:
                continue
            seen.add(b.npath)
            for c in facts.with_closures(b)[1:]:
                stack.append(c)
            for i, t in b.calls():
                if t["f"].get("crate") != "petgraph":
                    continue
                cn = callee_name(t["f"])
                if cn in ("graph_impl::stable_graph::StableGraph::add_node", "graph_impl::stable_graph::StableGraph::try_add_node"):
                    hit.append((b.npath, t["line"]))
                    continue
                for nb in facts.find(cn):
                    if nb.file.startswith("src/graph_impl/stable_graph") and len(seen) < 40:
                        stack.append(nb)
        o.check(b0, "no-freelist-allocation", b0.line, not hit, "creates the node with occupy_vacant_node(node_ix, ..) after padding",
                "ensure_node_exists reaches StableGraph::add_node (%s): with a vacancy on the free list the new node lands on a previously removed index "
                "instead of the requested one (extend_with_edges / from_edges resurrect a removed node and miss the named endpoint)" % hit[:2])
        occ = [i for i, t in b0.calls() if callee_name(t["f"]).endswith("StableGraph::occupy_vacant_node")]
        o.check(b0, "occupies-given-index", b0.line, bool(occ) and all(("arg", 2) in named_roots(b0, b0.blocks[i]["term"]["args"][1]) for i in occ),
                "occupy_vacant_node is called with the requested index", "ensure_node_exists does not occupy the requested index")
    o.r.floor = 2
    return o.r


# ------------------------------------------------------------------------------------------------ C04
def matrix_cell_bounds(facts):
    o = Obl("GUARD-MATRIXPOS", "MatrixGraph's per-node scan (Edges::next) reads the cell to_linearized_matrix_position(row, column) only under row < node_capacity AND "
                               "column < node_capacity: a linearised position with one coordinate past the capacity aliases another cell")
    for b in o.need_fn(facts, "«matrix_graph::Edges as core::iter::Iterator»::next"):
        n = 0
        for i, t in b.calls():
            if last_seg(t["f"]["path"]) != "to_linearized_matrix_position" or len(t["args"]) < 3:
                continue
            for k, nm in ((0, "row"), (1, "column")):
                n += 1
                want = named_roots(b, t["args"][k])
                ok = False
                for (e, truth, src) in dom_atoms(b, i, named_leaf=True):
                    if isinstance(e, tuple) and e[0] == "bin" and truth is True and e[1] in ("Lt", "Gt"):
                        lo, hi = (e[2], e[3]) if e[1] == "Lt" else (e[3], e[2])
                        if (roots_named(b, lo) & want or strip_casts(lo) == strip_casts(b.expr(t["args"][k], 12, named_leaf=True))) and ("field", "node_capacity") in deep_leaves(b, hi):
                            ok = True
                o.check(b, "cell-%s-bounded" % nm, t["line"], ok, "%s < node_capacity dominates the cell read" % nm,
                        "the cell (row, column) is read without `%s < node_capacity` dominating it: for a node whose id is at or past the matrix capacity "
                        "(an isolated 5th/9th/.. node) the linearised position lands in another node's row and invented edges are reported" % nm)
        o.check(b, "cells", b.line, n >= 2, "%d coordinate obligations" % n, "to_linearized_matrix_position call not found in Edges::next")
    o.r.floor = 3
    return o.r


# ------------------------------------------------------------------------------------------------ C05
REVERSE_SEARCH = ("rposition", "rfind", "rev", "next_back", "rsplit", "last", "nth_back", "rfold", "try_rfold")


def list_search_direction(facts):
    o = Obl("SIBLING-SEARCHDIR", "adj::List: find_edge, update_edge (and contains_edge through them) locate `the` edge a -> b the same way - the first match "
                                 "of a forward scan of the row; none of them searches the row backwards")
    for sfx in ("adj::List::find_edge", "«adj::List as data::Build»::update_edge"):
        for b0 in o.need_fn(facts, sfx):
            bad = []
            fwd = 0
            for b in facts.with_closures(b0):
                for i, t in b.calls():
                    nm = last_seg(t["f"]["path"])
                    if t["f"].get("crate") == "petgraph":
                        continue
                    if nm in REVERSE_SEARCH:
                        bad.append((nm, t["line"]))
                    if nm in ("find", "position", "next", "enumerate", "iter", "iter_mut", "find_map"):
                        fwd += 1
            o.check(b0, "forward-scan", b0.line, not bad and fwd >= 1, "forward scan of the row (first match)",
                    "the row is searched backwards (%s): with parallel edges a -> b this function picks the LAST one while its siblings pick the first - "
                    "update_edge then updates an edge that find_edge does not report" % bad[:2])
    o.r.floor = 2
    return o.r


# ------------------------------------------------------------------------------------------------ C06
ONE_TO_ONE_OK = ("next", "next_back", "map", "size_hint", "len", "by_ref")


def reversed_one_to_one(facts):
    r = RuleResult("ADAPTOR-1TO1", "Reversed presents exactly the reversed graph: its iterators (ReversedEdges, ReversedEdgeReferences) map the inner iterator's "
                                   "elements one to one - `next` pulls one inner element and wraps it; nothing is filtered, skipped or searched for")
    n = 0
    for b0 in facts.bodies:
        if b0.file != "src/visit/reversed.rs" or b0.kind != "AssocFn" or b0.name not in ("next", "next_back") or b0.impl_trait not in ("core::iter::Iterator", "core::iter::DoubleEndedIterator"):
            continue
        n += 1
        bad = []
        pulls = 0
        for b in facts.with_closures(b0):
            for i, t in b.calls():
                f = t["f"]
                nm = last_seg(f["path"])
                if f.get("crate") == "petgraph" or not norm_path(f["path"]).startswith(("core::iter::", "core::option::Option")):
                    continue
                if nm in ("next", "next_back"):
                    pulls += 1
                elif nm not in ONE_TO_ONE_OK:
                    bad.append((nm, t["line"]))
        if bad or pulls != 1:
            r.bad(Violation("ADAPTOR-1TO1", b0.npath, "one-to-one", b0.file, b0.line,
                            "a Reversed iterator does not map its inner iterator one to one (%s; %d inner pulls): some edges of the reversed graph are dropped "
                            "or duplicated for one query but not for the others (edges_directed vs edges / neighbors / edge_references)"
                            % (", ".join("%s at line %d" % x for x in bad[:3]) or "no filter call", pulls)))
        else:
            r.ok(b0.npath, "one-to-one", "one inner pull, wrapped")
    r.floor = 2
    return r


# ------------------------------------------------------------------------------------------------ C09
def condensation_simple(facts):
    o = Obl("GUARD-CONDENSE", "condensation(make_acyclic = true) builds a SIMPLE graph: under make_acyclic every edge is inserted with update_edge (which merges "
                              "parallel edges); add_edge is used only when make_acyclic is false")
    for b in o.need_fn(facts, "algo::condensation"):
        n = 0
        for i, t in b.calls():
            cn = callee_name(t["f"])
            if not cn.endswith(("Graph::add_edge", "Graph::try_add_edge")):
                continue
            n += 1
            ok = False
            for (e, truth, src) in dom_atoms(b, i, named_leaf=True):
                if isinstance(e, tuple) and e[0] in ("arg", "local") and truth is False and ("arg", 2) in leaves(e):
                    ok = True
                if e == ("arg", 2) and truth is False:
                    ok = True
            o.check(b, "add_edge#%d" % n, t["line"], ok, "add_edge only under !make_acyclic",
                    "condensation inserts an edge with add_edge on a path where make_acyclic may be true: parallel edges of the input between two components "
                    "survive, so the acyclic condensation is a multigraph")
        ups = [i for i, t in b.calls() if callee_name(t["f"]).endswith("Graph::update_edge")]
        o.check(b, "update_edge", b.line, len(ups) >= 1, "%d update_edge site(s)" % len(ups), "no update_edge call found in condensation")
    o.r.floor = 2
    return o.r


# ------------------------------------------------------------------------------------------------ C10
def entry_arms(facts):
    r = RuleResult("ENTRY-ARMS", "shortest-path score tables (dijkstra, astar, k_shortest_path): the Occupied and the Vacant arm of one `map.entry(k)` store the same "
                                 "quantity (the same named value) - a table holds one kind of score")
    n = 0
    for b in facts.bodies:
        if not b.file.startswith("src/algo") or b.kind not in ("Fn", "AssocFn", "Closure"):
            continue
        groups = {}
        for i, t in b.calls():
            np_ = norm_path(t["f"]["path"])
            nm = last_seg(np_)
            if "Entry" not in np_ or nm not in ("insert", "into_mut", "get_mut", "or_insert"):
                continue
            kind = "Occupied" if "OccupiedEntry" in np_ else ("Vacant" if "VacantEntry" in np_ else None)
            if kind is None:
                continue
            src = None
            for s in walk_expr(b.expr(t["args"][0], 12)):
                if isinstance(s, tuple) and s[0] == "call" and last_seg(s[1]["path"]) == "entry":
                    src = s[3]
            if src is None:
                continue
            vals = []
            if nm in ("insert", "or_insert") and len(t["args"]) > 1:
                vals.append(frozenset(named_roots(b, t["args"][1])))
            elif nm in ("into_mut", "get_mut") and not t["dest"]["p"]:
                d = t["dest"]["l"]
                for i2, j2, st in b.stmts():
                    if st["lhs"]["l"] == d and st["lhs"]["p"] == ["*"] and st["rv"]["k"] == "use":
                        vals.append(frozenset(named_roots(b, st["rv"]["o"][0])))
            for v in vals:
                groups.setdefault(src, {}).setdefault(kind, []).append((v, t["line"]))
        for src, g in groups.items():
            if "Occupied" not in g or "Vacant" not in g:
                continue
            n += 1
            site = "entry#%d" % n
            occ = {v for v, _ in g["Occupied"]}
            vac = {v for v, _ in g["Vacant"]}
            if occ == vac and len(occ) == 1:
                r.ok(b.npath, site, "both arms store %s" % sorted(b.lname(x[1]) if x[0] == "local" else str(x) for x in next(iter(occ))))
            else:
                def nm_(vs):
                    return sorted(sorted((b.lname(x[1]) or "_%d" % x[1]) if x[0] == "local" else "arg%d" % x[1] for x in v) for v in vs)
                r.bad(Violation("ENTRY-ARMS", b.npath, site, b.file, g["Vacant"][0][1],
                                "the Vacant arm stores %s but the Occupied arm stores %s into the same table: the first visit records a different quantity than "
                                "later ones, so the re-expansion / relaxation test compares unlike scores (astar with an inconsistent heuristic returns a "
                                "cost that is not the path's cost)" % (nm_(vac), nm_(occ))))
    r.floor = 3
    r.floor_what = "entry() sites with both arms storing"
    return r


# ------------------------------------------------------------------------------------------------ C11
def negcheck_unfiltered(facts):
    o = Obl("GUARD-NEGCHECK", "bellman_ford / bellman_ford_initialize_relax / find_negative_cycle: the relaxation test `dist[i] + w < dist[j]` is applied to EVERY edge - "
                              "it is not preceded by a test on the edge's endpoints (i != j, source/target comparisons): a negative self-loop is a negative cycle")
    n = 0
    for sfx in ("algo::bellman_ford::bellman_ford", "algo::bellman_ford::bellman_ford_initialize_relax", "algo::bellman_ford::find_negative_cycle"):
        for b0 in o.need_fn(facts, sfx):
            for b in facts.with_closures(b0):
                for i, t in b.calls():
                    if norm_path(t["f"]["path"]) != "core::cmp::PartialOrd::lt" or not t["args"] or not has_call(b.expr(t["args"][0], 8), ("add",)):
                        continue
                    n += 1
                    bad = []
                    for (e, truth, src) in dom_atoms(b, i):
                        if isinstance(e, tuple) and e[0] == "bin" and e[1] in ("Eq", "Ne") and (has_call(e, ("target", "source")) or has_call(e, ("to_index",))):
                            bad.append(b.blocks[src]["term"]["line"])
                    o.check(b, "relax-test#%d" % n, t["line"], not bad, "the relaxation test is not filtered by an endpoint comparison",
                            "the relaxation test is skipped for edges selected by an endpoint comparison (line %s): a negative self-loop (or the filtered edge "
                            "class) is never examined - bellman_ford returns Ok although find_negative_cycle reports the cycle" % bad)
    o.check_n = n
    o.r.floor = 3
    return o.r


# ------------------------------------------------------------------------------------------------ C14
def scratch_grow_guard(facts):
    o = Obl("GUARD-SCRATCHGROW", "Acyclic::causal_cones: the scratch bit sets are grown to node_bound() whenever their length is below node_bound() - the test "
                                 "that may skip the growth compares len() with node_bound() itself, not with the indices of the two endpoints")
    for b0 in o.need_fn(facts, "acyclic::Acyclic::causal_cones"):
        n = 0
        for b in facts.with_closures(b0):
            for i, t in b.calls():
                if norm_path(t["f"]["path"]) != "fixedbitset::FixedBitSet::grow":
                    continue
                n += 1
                ok = has_call(b.expr(t["args"][1], 8), ("node_bound",))
                guards = [(e, truth) for (e, truth, src) in dom_atoms(b, i) if isinstance(e, tuple) and e[0] == "bin" and e[1] in ("Lt", "Le", "Gt", "Ge", "Ne")]
                good = [1 for (e, truth) in guards if has_call(e, ("len",)) and has_call(e, ("node_bound",))]
                other = [1 for (e, truth) in guards if has_call(e, ("len",)) and not has_call(e, ("node_bound",))]
                o.check(b, "grow#%d" % n, t["line"], ok and not other and (bool(good) or not guards), "grow(node_bound()) guarded by len() < node_bound() (or unconditional)",
                        "the growth of a scratch bit set is skipped by a test that does not compare its length with node_bound(): after a removal has "
                        "renumbered / reused an index the cone DFS reaches a node past the set's length and a valid insertion panics")
        o.check(b0, "grows", b0.line, n >= 2, "%d grow call(s)" % n, "expected the two scratch sets to be grown in causal_cones")
    o.r.floor = 3
    return o.r


# ------------------------------------------------------------------------------------------------ C15
def label_reset_whole(facts):
    o = Obl("RESET-WHOLE", "maximum_matching: the per-search reset of the label vector covers the WHOLE vector (including the dummy slot at node_bound()): the "
                           "iter_mut whose elements are overwritten with Label::None runs over the vector itself, not over a sub-slice")
    SLICERS = ("index_mut", "index", "split_at_mut", "get_mut", "take", "skip", "split_last_mut", "split_first_mut", "step_by", "filter", "skip_while", "take_while")

    def is_label_none(b, rv):
        v = None
        if rv["k"] == "agg" and rv.get("ak") == "adt":
            v = ("agg", rv["name"], rv["variant"])
        elif rv["k"] == "use":
            v = b.expr(rv["o"][0], 3)
        return isinstance(v, tuple) and v[0] == "agg" and str(v[1]).endswith("matching::Label") and v[2] == "None"

    for b in o.need_fn(facts, "algo::matching::maximum_matching"):
        n = 0
        sites = []          # (line, receiver expression)
        for i, j, st in b.stmts():
            if st["lhs"]["p"] == ["*"] and is_label_none(b, st["rv"]):
                e = b.local_expr(st["lhs"]["l"], 14)
                if has_call(e, ("iter_mut", "into_iter")):
                    sites.append((st["line"], e))
        for i, t in b.calls():
            nm = last_seg(t["f"]["path"])
            if nm in ("fill", "fill_with") and len(t["args"]) >= 2:
                v = b.expr(t["args"][1], 3)
                if isinstance(v, tuple) and v[0] == "agg" and str(v[1]).endswith("matching::Label") and v[2] == "None":
                    sites.append((t["line"], b.expr(t["args"][0], 14)))
            if nm == "for_each" and len(t["args"]) >= 2:
                ce = b.expr(t["args"][1], 3)
                cname = ce[1] if isinstance(ce, tuple) and ce[0] == "agg" and len(ce) > 1 else None
                for cb in facts.with_closures(b)[1:]:
                    if cname is not None and cb.path not in str(ce):
                        continue
                    if any(st2["lhs"]["p"] == ["*"] and is_label_none(cb, st2["rv"]) for _, _, st2 in cb.stmts()):
                        sites.append((t["line"], b.expr(t["args"][0], 14)))
                        break
        for (line, e) in sites:
            n += 1
            sliced = [last_seg(s[1]["path"]) for s in walk_expr(e) if isinstance(s, tuple) and s[0] == "call" and last_seg(s[1]["path"]) in SLICERS]
            o.check(b, "reset#%d" % n, line, not sliced, "Label::None written over the whole label vector",
                    "the label reset runs over a part of the label vector only (%s): a Flag left on the dummy slot by find_join survives into the next search "
                    "and a later blossom is closed at the wrong join - the returned matching pairs non-adjacent vertices" % sliced[:2])
        o.check(b, "resets", b.line, n >= 1, "%d reset loop(s)" % n, "label reset loop not found in maximum_matching")
    o.r.floor = 2
    return o.r


# ------------------------------------------------------------------------------------------------ C16
def ap_no_disc_zero(facts):
    o = Obl("GUARD-APCLOCK", "articulation_points::_dfs: no decision is taken on `disc[..] == 0` (the first clock value): the discovery clock is shared by all DFS trees, so a "
                             "discovery time never identifies a root (only the first tree's root has disc == 0)")
    for b in o.need_fn(facts, "algo::articulation_points::_dfs"):
        bad = []
        n = 0
        for i, bl in enumerate(b.blocks):
            t = bl["term"]
            if bl["cleanup"] or t["k"] != "switch":
                continue
            e = b.expr(t["d"], 10)
            while isinstance(e, tuple) and e[0] == "un" and e[1] == "Not":
                e = e[2]
            n += 1
            if isinstance(e, tuple) and e[0] == "bin" and e[1] in ("Eq", "Ne", "Lt", "Le", "Gt", "Ge") and ("field", "disc") in leaves(e):
                sides = [e[2], e[3]]
                if any(isinstance(strip_casts(s), tuple) and strip_casts(s)[0] == "const" and strip_casts(s)[1] in ("0", "0_usize") for s in sides):
                    bad.append(t["line"])
        o.check(b, "no-disc-const-test", b.line, not bad, "%d branch conditions, none compares a discovery time with the first clock value" % n,
                "_dfs branches on a discovery time compared with 0 (line %s): the clock is not reset between DFS trees, so the root of a "
                "second component is not recognised and a cut vertex that is the root of its tree is missed" % bad)
    o.r.floor = 1
    return o.r


# ------------------------------------------------------------------------------------------------ C18
def graph6_ids(facts):
    o = Obl("FLOW-GRAPH6IDS", "graph6 encoder: both node arguments of every is_adjacent query are node ids that came out of node_identifiers() (directly or through "
                              "the vector collecting them) - never ids re-created from a position with from_index / NodeIndex::new (positions are not indices "
                              "on StableGraph / MatrixGraph with vacancies)")
    n = 0
    for b in facts.bodies:
        if b.file != "src/graph6/graph6_encoder.rs" or b.kind not in ("Fn", "AssocFn", "Closure"):
            continue
        for i, t in b.calls():
            if last_seg(t["f"]["path"]) != "is_adjacent" or len(t["args"]) < 4:
                continue
            for k in (2, 3):
                n += 1
                e = b.expr(t["args"][k], 12)
                made = [last_seg(s[1]["path"]) for s in walk_expr(e) if isinstance(s, tuple) and s[0] == "call" and
                        (last_seg(s[1]["path"]) in ("from_index", "node_index") or (last_seg(s[1]["path"]) == "new" and "NodeIndex" in s[1]["path"]))]
                o.check(b, "is_adjacent.arg%d" % (k - 1), t["line"], not made, "node id not re-created from a position",
                        "an is_adjacent query uses a node id made from a position (%s) instead of an id yielded by node_identifiers(): on a StableGraph / "
                        "MatrixGraph with a vacant index the wrong pair is queried and the adjacency bits are wrong" % (made[:1] or "unknown source"))
    o.check_n = n
    o.r.floor = 2
    return o.r


# ------------------------------------------------------------------------------------------------ C20
def closure_index_type(facts):
    o = Obl("TYPE-CLOSUREIX", "steiner_tree: the metric-closure graph (complete graph on the terminals, |T|(|T|-1)/2 edges) is built with a concrete index type, "
                              "not with the input graph's Ix parameter - its size is unrelated to the input graph's capacity")
    for b in o.need_fn(facts, "algo::steiner_tree::steiner_tree"):
        n = 0
        for i, t in b.calls():
            if not callee_name(t["f"]).endswith("Graph::from_edges"):
                continue
            n += 1
            targs = t["f"].get("targs", [])
            ix = targs[3] if len(targs) > 3 else ""
            ok = ix in ("usize", "u32", "u64")
            o.check(b, "from_edges#%d" % n, t["line"], ok, "closure graph index type %s" % ix,
                    "the metric-closure graph is built with index type `%s` (the input graph's parameter): with a u8/u16 input and |T|(|T|-1)/2 above the "
                    "type's capacity (24 terminals for u8) from_edges panics although the input graph is valid" % ix)
        o.check(b, "closure-graph", b.line, n >= 1, "%d from_edges call(s)" % n, "Graph::from_edges not found in steiner_tree")
    o.r.floor = 2
    return o.r


# ------------------------------------------------------------------------------------------------ C05 / C06 (undirected Csr: stored twice, counted once)
def csr_mirror_enumeration(facts):
    o = Obl("PAIR-MIRROR", "Csr: when try_add_edge can insert TWO column entries (the mirror of an undirected non-loop edge) while it increments the edge counter "
                           "once, the whole-graph enumerator EdgeReferences::next must skip one of the two copies (an orientation test between the entry and "
                           "source_index one of whose outcomes goes back to the scan instead of yielding) - so that edge_references() yields edge_count() elements")
    mirrored = None
    for b in o.need_fn(facts, "csr::Csr::try_add_edge"):
        ins = [i for i, t in b.calls() if callee_name(t["f"]).endswith("Csr::add_edge_")]
        inc = [i for i, j, st in b.stmts() if any(isinstance(x, dict) and x.get("n") == "edge_count" for x in st["lhs"]["p"])]
        two_ins = any(a != c and c in reach(b, a) for a in ins for c in ins)
        two_inc = any(a != c and c in reach(b, a) for a in inc for c in inc)
        mirrored = two_ins and not two_inc and len(inc) >= 1
        o.check(b, "insert-vs-count", b.line, bool(ins) and bool(inc), "%d column insertion site(s), %d counter increment(s); a path inserts twice and counts once: %s"
                % (len(ins), len(inc), mirrored), "add_edge_ calls / edge_count increment not found in Csr::try_add_edge")
    for b in o.need_fn(facts, "«csr::EdgeReferences as core::iter::Iterator»::next"):
        if not mirrored:
            o.check(b, "mirror-skip", b.line, True, "no mirrored storage: nothing to skip", "")
            continue
        succ = b.cfg()[0]
        yields = [i for i, j, st in return_some_sites(b)]
        heads = [i for i, t in b.calls() if last_seg(t["f"]["path"]) == "next"]
        ok = False
        for i, t in b.calls():
            np_ = norm_path(t["f"]["path"])
            if not np_.startswith("core::cmp::PartialOrd::") and not np_.startswith("core::cmp::Ord::cmp"):
                continue
            e = b.expr({"copy": t["dest"]} if False else t["args"][0], 8), b.expr(t["args"][1], 8)
            if not any(("field", "source_index") in leaves(x) for x in e):
                continue
            # the switch on the comparison's result: one outcome must return to the scan without yielding
            sw = succ[i][0] if succ[i] else None
            while sw is not None and b.blocks[sw]["term"]["k"] == "goto":
                sw = succ[sw][0]
            if sw is None or b.blocks[sw]["term"]["k"] != "switch":
                continue
            for tgt in succ[sw]:
                r_ = reach(b, tgt, avoid=set(heads))
                if not (set(yields) & r_):
                    ok = True
        o.check(b, "mirror-skip", b.line, ok, "one orientation outcome (entry vs source_index) skips the entry",
                "an undirected non-loop edge is stored in the rows of both endpoints and counted once, but EdgeReferences::next yields every column entry: "
                "edge_references() reports each such edge twice ((a, b) and (b, a)) while edge_count() counts it once")
    o.r.floor = 2
    return o.r


# ------------------------------------------------------------------------------------------------ C11 (floyd_warshall: a negative self-loop is a negative cycle)
def fw_diagonal_first(facts):
    o = Obl("FLOW-FWDIAG", "floyd_warshall (_floyd_warshall_path): the self-distance initialisation dist[i][i] = default is not executed AFTER the edge costs have "
                           "been entered - otherwise it overwrites the cost of a self-loop and a negative self-loop (a negative cycle) leaves dist[i][i] = 0, "
                           "so the final `dist[i][i] < 0` test cannot see it")
    for b in o.need_fn(facts, "algo::floyd_warshall::_floyd_warshall_path"):
        diag, edge = [], []
        for i, t in b.calls():
            if not callee_name(t["f"]).endswith("floyd_warshall::set_object") or len(t["args"]) < 4:
                continue
            r1, r2 = named_roots(b, t["args"][1]), named_roots(b, t["args"][2])
            ve = b.expr(t["args"][3], 10)
            if r1 and r1 == r2 and has_call(ve, ("default",)):
                diag.append(i)
            elif any(isinstance(s, tuple) and s[0] == "call" and s[1].get("trait") in ("core::ops::FnMut", "core::ops::Fn", "core::ops::FnOnce") for s in walk_expr(ve)):
                edge.append(i)
        # direct stores dist[i][i] = default / dist[s][t] = cost are not recognised: silent unless both forms are found
        if not (diag and edge):
            o.r.silent += 1
        o.check(b, "has-both", b.line, True, "%d self-distance initialisation(s), %d edge-cost store(s) recognised%s"
                % (len(diag), len(edge), "" if (diag and edge) else " - unrecognised shape: silent"), "")
        if diag and edge:
            late = [d for d in diag if any(d in reach(b, e) for e in edge)]
            o.check(b, "diagonal-before-edges", b.line, not late, "the self-distances are initialised before the edge costs are entered",
                    "dist[i][i] = default is (re)written after the edge costs were entered: the cost of a self-loop is discarded, so a graph whose only "
                    "negative cycle is a negative self-loop gets Ok from floyd_warshall / floyd_warshall_path while bellman_ford and "
                    "find_negative_cycle report the cycle")
    o.r.floor = 2
    return o.r


def fw_infinity_guard(facts):
    o = Obl("GUARD-INFINITY", "floyd_warshall (_floyd_warshall_path): BoundedMeasure::max() stands for `unreachable`; the path sum dist[i][k] + dist[k][j] is formed only "
                              "when NEITHER leg is max() - both `!= max()` tests dominate the overflowing_add - otherwise max() + (negative) < max() turns an "
                              "unreachable pair into a finite distance")
    for b in o.need_fn(facts, "algo::floyd_warshall::_floyd_warshall_path"):
        n = 0
        for i, t in b.calls():
            if last_seg(t["f"]["path"]) != "overflowing_add":
                continue
            n += 1
            legs = set()
            for (e, truth, src) in dom_atoms(b, i):
                if not (isinstance(e, tuple) and e[0] == "bin" and truth is True and e[1] in ("Ne", "Lt", "Gt")):
                    continue
                sides = [e[2], e[3]]
                mx = [k for k, s_ in enumerate(sides) if has_call(s_, ("max",)) and not has_call(s_, ("index",))]
                if len(mx) != 1:
                    continue
                other = sides[1 - mx[0]]
                if has_call(other, ("index",)):
                    legs.add(src)       # one test per switch block
            o.check(b, "path-sum#%d" % n, t["line"], len(legs) >= 2, "both legs tested against max() before they are added",
                    "the path sum is formed without testing both legs against BoundedMeasure::max() (%d leg test(s) dominate it): with a negative edge "
                    "k -> j, an unreachable i -> k (max()) gives max() + negative < max(), so the unreachable pair (i, j) is reported with a finite "
                    "distance and a predecessor" % len(legs))
        o.check(b, "path-sums", b.line, n >= 1, "%d path sum(s)" % n, "overflowing_add not found in _floyd_warshall_path")
    o.r.floor = 2
    return o.r


def spfa_fifo(facts):
    o = Obl("FLOW-FIFO", "spfa: the work list is first-in first-out - elements are removed from the end opposite to the one they are inserted at. The bound "
                         "`a vertex is dequeued at most |V| times unless there is a negative cycle` that spfa's Err rests on holds for FIFO order only; "
                         "with a stack (Vec::push / Vec::pop) an acyclic graph can exceed it")
    BACK = ("pop", "pop_back", "push", "push_back")
    FRONT = ("pop_front", "push_front")
    for b in o.need_fn(facts, "algo::spfa::spfa"):
        rem, ins = [], []
        for i, t in b.calls():
            nm = last_seg(t["f"]["path"])
            np_ = norm_path(t["f"]["path"])
            if "Vec" not in np_ and "VecDeque" not in np_:
                continue
            if nm in ("pop", "pop_back", "pop_front"):
                rem.append((i, nm, named_roots(b, t["args"][0])))
            elif nm in ("push", "push_back", "push_front"):
                ins.append((i, nm, named_roots(b, t["args"][0])))
        n = 0
        for (ri, rn, rr) in rem:
            for (ii, inn, ir) in ins:
                if not (rr & ir) or ii not in reach(b, ri):
                    continue
                n += 1
                same_end = (rn in BACK) == (inn in BACK)
                o.check(b, "%s/%s#%d" % (rn, inn, n), b.blocks[ri]["term"]["line"], not same_end, "removal and insertion at opposite ends (FIFO)",
                        "the work list is used as a stack (%s / %s on the same end): the |V|-visits bound does not hold for last-in first-out order, so "
                        "spfa returns Err(NegativeCycle) on graphs without any negative cycle (a 6-node DAG suffices)" % (rn, inn))
        o.check(b, "worklist", b.line, n >= 1, "%d removal/insertion pair(s) on the work list" % n, "no pop/push pair on one work list found in spfa")
    o.r.floor = 2
    return o.r


# ------------------------------------------------------------------------------------------------ C20 (dsatur colour count)
def dsatur_count(facts):
    o = Obl("GUARD-COLORCOUNT", "dsatur_coloring reports k = number of colours in use: `running maximum + 1` is returned only on a path on which at least one node was "
                                "coloured (an emptiness / count test decides the value) - on the empty graph no colour is in use and k is 0")
    for b in o.need_fn(facts, "algo::coloring::dsatur_coloring"):
        n = 0
        for i, j, st in b.stmts():
            rv = st["rv"]
            if not (st["lhs"]["l"] == 0 and not st["lhs"]["p"] and rv["k"] == "agg" and rv.get("ak") == "tuple" and len(rv["o"]) == 2):
                continue
            n += 1
            l = op_local(rv["o"][1])
            for _ in range(4):          # through plain copies
                sd = b.single_def(l) if l is not None else None
                if sd and sd[0] == "st":
                    rv2 = b.blocks[sd[1]]["st"][sd[2]]["rv"]
                    l2 = op_local(rv2["o"][0]) if rv2["k"] == "use" and op_place(rv2["o"][0]) is not None and not op_place(rv2["o"][0])["p"] else None
                    if l2 is None:
                        break
                    l = l2
                else:
                    break
            defs = b.defs().get(l, []) if l is not None else []
            e = b.expr(rv["o"][1], 6)
            plus_one = [s for s in walk_expr(e) if isinstance(s, tuple) and s[0] == "bin" and s[1] in ("Add", "AddWithOverflow") and
                        any(isinstance(x, tuple) and x[0] == "const" and x[1] == "1" for x in (s[2], s[3]))]
            multi = len([d for d in defs if d[0] in ("st", "call")]) > 1
            if not plus_one and not multi:
                o.check(b, "count#%d" % n, st["line"], True, "count not formed as maximum + 1", "")
                continue
            # where is the `+ 1` computed?  it must be control dependent on an emptiness / count test
            blks = []
            for d in defs:
                if d[0] != "st":
                    continue
                de = b.place_expr({"l": l, "p": []}, 6) if False else None
                rvd = b.blocks[d[1]]["st"][d[2]]["rv"]
                ed = b.expr(rvd["o"][0], 6) if rvd["k"] == "use" else None
                is_plus = rvd["k"] == "bin" and rvd["op"].startswith("Add") or (ed is not None and any(
                    isinstance(s_, tuple) and s_[0] == "bin" and s_[1] in ("Add", "AddWithOverflow") for s_ in walk_expr(ed)))
                if is_plus or not multi:
                    blks.append(d[1])
            blks = blks or [i]
            guarded = False
            for blk in blks:
                for (ae, truth, src) in dom_atoms(b, blk):
                    tops = [ae] if not (isinstance(ae, tuple) and ae[0] == "bin") else [ae[2], ae[3]]
                    for tp in tops:
                        tp = strip_casts(tp)
                        if isinstance(tp, tuple) and tp[0] == "call" and last_seg(tp[1]["path"]) in ("is_empty", "len", "node_count"):
                            guarded = True
            o.check(b, "count#%d" % n, st["line"], guarded, "maximum + 1 only when a node was coloured",
                    "the reported number of colours is `max_color + 1` unconditionally: for a graph without nodes (empty, or a StableGraph whose nodes "
                    "were all removed) it reports 1 colour although the colouring uses none")
        o.check(b, "returns", b.line, n >= 1, "%d return tuple(s)" % n, "return tuple not found in dsatur_coloring")
    o.r.floor = 2
    return o.r


# ------------------------------------------------------------------------------------------------ C06 (UndirectedAdaptor: a self-loop is in both halves)
def undirected_adaptor_symm(facts):
    r = RuleResult("ADAPTOR-SYMM", "UndirectedAdaptor presents the symmetrised graph: neighbors(n) / edges(n) are built from the inner graph's Incoming and Outgoing lists of n; "
                                   "a self-loop n -> n is in BOTH lists, so one of the two halves has to exclude it (as Graph<Undirected> does with its skip_start) - a bare "
                                   "chain(incoming, outgoing) lists every self-loop twice")
    n = 0
    for b in facts.bodies:
        if b.file != "src/visit/undirected_adaptor.rs" or b.kind != "AssocFn" or b.name not in ("neighbors", "edges") or "UndirectedAdaptor" not in (b.impl_self or ""):
            continue
        for i, t in b.calls():
            if norm_path(t["f"]["path"]) != "core::iter::Iterator::chain" or len(t["args"]) < 2:
                continue
            n += 1
            halves = [strip_casts(b.expr(a, 6)) for a in t["args"][:2]]
            bare = [isinstance(h, tuple) and h[0] == "call" and last_seg(h[1]["path"]) in ("neighbors_directed", "edges_directed") for h in halves]
            if all(bare):
                r.bad(Violation("ADAPTOR-SYMM", b.npath, "chain", b.file, t["line"],
                                "%s(n) is chain(%s(n, Incoming), %s(n, Outgoing)) with neither half filtered: a self-loop n -> n of the inner graph is yielded twice, "
                                "while the same edges in a Graph<Undirected> are yielded once" % (b.name, last_seg(halves[0][1]["path"]), last_seg(halves[1][1]["path"]))))
            else:
                r.ok(b.npath, "chain", "one half is wrapped (filtered): a self-loop is yielded once")
    r.floor = 2
    return r


# ------------------------------------------------------------------------------------------------ C11 (find_negative_cycle: follow the LAST relaxation)
def negcycle_last_relaxation(facts):
    o = Obl("FLOW-LASTRELAX", "find_negative_cycle: when an edge (i, j) can still be relaxed after |V|-1 rounds, the predecessor chain that is followed back from j must "
                              "contain that last relaxation - predecessor[j] is set to i (under the relaxation test, before the chain is read). Only then is the chain "
                              "guaranteed to end in a cycle of g; the old predecessor of j may lead to the source (no predecessor), which is then reported as a "
                              "`self cycle` although it has no self-loop")
    for b in o.need_fn(facts, "algo::bellman_ford::find_negative_cycle"):
        tests = [i for i, t in b.calls() if norm_path(t["f"]["path"]) == "core::cmp::PartialOrd::lt" and t["args"] and has_call(b.expr(t["args"][0], 8), ("add",))]
        o.check(b, "relax-test", b.line, len(tests) >= 1, "%d relaxation test(s)" % len(tests), "relaxation test not found in find_negative_cycle")
        # reads of an Option<NodeId> vector (the predecessor chain) and stores into one
        def is_pred_vec(op):
            l = op_local(op)
            e = b.expr(op, 6, named_leaf=True)
            tys = [b.lty(x[1]) for x in leaves(e) if x[0] == "local"]
            return any("Vec<core::option::Option<" in ty for ty in tys)
        reads = [i for i, t in b.calls() if norm_path(t["f"]["path"]) == "core::ops::Index::index" and t["args"] and is_pred_vec(t["args"][0])]
        stores = [i for i, t in b.calls() if norm_path(t["f"]["path"]) == "core::ops::IndexMut::index_mut" and t["args"] and is_pred_vec(t["args"][0])]
        o.check(b, "chain-reads", b.line, len(reads) >= 1, "%d predecessor read(s)" % len(reads), "no read of the predecessor vector found")
        ok = False
        for s_ in stores:
            if any(b.dominates(tb, s_) for tb in tests) and all(b.dominates(s_, r_) for r_ in reads):
                ok = True
        o.check(b, "last-relaxation-recorded", b.line, ok, "predecessor[j] = Some(i) under the relaxation test, before the chain is followed",
                "the predecessor chain is followed from j without recording the relaxation (i, j) that proved the cycle: the stale predecessor of j can lead "
                "back to the source, whose missing predecessor is reported as a one-node `cycle` - find_negative_cycle returns a sequence that is not a "
                "closed walk of g (e.g. the single edge 0 - 1 of weight -1 on an undirected graph, source 1, gives [1])")
    o.r.floor = 3
    return o.r
