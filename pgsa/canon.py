"""CANON - canonical key / position function (DESIGN 3.5).

GraphMap.edges may be keyed only by a value that flows from GraphMap::edge_key (or from iterating the
map itself); MatrixGraph cell arrays may be indexed only by a value that flows from
to_linearized_matrix_position::<Ty> with Ty the graph's own edge-type parameter.
"""
import re

from .core import op_place, op_local, callee_name, last_seg, norm_path, strip_ref, walk_expr
from .report import RuleResult, Violation
from .taint import Taint
from .tag import leaves

KEYED = ("get", "get_mut", "insert", "swap_remove", "shift_remove", "contains_key", "get_index_of", "entry", "get_full",
         "get_full_mut", "remove", "swap_remove_full", "shift_remove_full", "insert_full", "get_key_value", "swap_remove_entry",
         "shift_remove_entry", "index", "index_mut")
FROM_MAP = ("get_index", "get_index_mut", "iter", "iter_mut", "keys", "into_iter", "first", "last", "drain", "into_keys", "get_index_entry")


class CanonTaint(Taint):
    def source_call(self, b, blk, t):
        f = t["f"]
        cn = callee_name(f)
        out = set()
        if cn.endswith("graphmap::GraphMap::edge_key"):
            out.add(("EK", ""))
        if cn in ("matrix_graph::to_linearized_matrix_position", "matrix_graph::MatrixGraph::to_edge_position",
                  "matrix_graph::MatrixGraph::to_edge_position_unchecked"):
            ty = f["targs"][0] if cn == "matrix_graph::to_linearized_matrix_position" and f.get("targs") else "self"
            out.add(("POS", ty))
        if f.get("crate") == "indexmap" and last_seg(f["path"]) in FROM_MAP and t["args"]:
            l = op_local(t["args"][0])
            if l is not None and is_edges_map(b.lty(l)):
                out.add(("MAPKEY", ""))
        return out

    def passthrough(self, b, t):
        f = t["f"]
        nm = last_seg(f["path"])
        if nm in ("branch", "next", "map", "filter_map", "enumerate", "rev", "peekable", "zip", "skip", "take", "by_ref",
                  "copied", "cloned", "into_iter", "iter", "and_then", "ok_or", "filter"):
            return True
        return super().passthrough(b, t)


def is_edges_map(ty):
    return strip_ref(ty).startswith("indexmap::IndexMap<(") or strip_ref(ty).startswith("indexmap::map::IndexMap<(")


def graphmap(facts):
    r = RuleResult("CANON-KEY", "every keyed access to GraphMap.edges uses a key that flows from GraphMap::edge_key (or was obtained from "
                                "the map itself): an undirected pair looked up un-normalised misses the stored edge")
    for root in facts.bodies:
        if root.kind not in ("Fn", "AssocFn") or root.file != "src/graphmap.rs":
            continue
        tt = CanonTaint(facts)
        group = tt.run_group(root)
        cnt = {}
        for b in group:
            st = tt.state[b.path]
            for i, t in b.calls():
                f = t["f"]
                nm = last_seg(f["path"])
                if nm not in KEYED or len(t["args"]) < 2:
                    continue
                if f.get("crate") != "indexmap" and not (f.get("crate") == "core" and nm in ("index", "index_mut")):
                    continue
                l = op_local(t["args"][0])
                if l is None or not is_edges_map(b.lty(l)):
                    continue
                if nm in ("index", "index_mut") and "usize" == b.lty(op_local(t["args"][1]) or 0):
                    continue
                tags = tt.tags_of_op(b, st, t["args"][1])
                kinds = {x[0] for x in tags}
                cnt[nm] = cnt.get(nm, 0) + 1
                site = "edges.%s#%d" % (nm, cnt[nm])
                if "EK" in kinds:
                    r.ok(root.npath, site, "key flows from edge_key")
                elif "MAPKEY" in kinds:
                    r.ok(root.npath, site, "key obtained from the map itself")
                else:
                    v = Violation("CANON-KEY", root.npath, site, b.file, t["line"],
                                  "GraphMap.edges.%s is keyed by a value that does not flow from edge_key(): for an undirected map the "
                                  "pair (b, a) with b > a is stored as (a, b) and this lookup misses it" % nm, {"key_tags": sorted(map(str, tags))})
                    r.bad(v)
    r.floor = 7
    r.floor_what = "keyed accesses to GraphMap.edges"
    return r


CELL_INDEXERS = ("core::ops::Index::index", "core::ops::IndexMut::index_mut", "core::slice::«impl [T]»::get", "core::slice::«impl [T]»::get_mut",
                 "core::slice::«impl [T]»::get_unchecked", "core::slice::«impl [T]»::get_unchecked_mut", "alloc::vec::Vec::get", "alloc::vec::Vec::get_mut")


def matrix(facts):
    r = RuleResult("CANON-POS", "every access to a MatrixGraph cell array (node_adjacencies) is indexed by a value that flows from "
                                "to_linearized_matrix_position::<Ty> with Ty the graph's own edge-type parameter")
    for root in facts.bodies:
        if root.kind not in ("Fn", "AssocFn") or root.file != "src/matrix_graph.rs":
            continue
        if root.npath in ("matrix_graph::extend_linearized_matrix", "matrix_graph::extend_flat_square_matrix",
                          "matrix_graph::extend_lower_triangular_matrix", "matrix_graph::ensure_len"):
            continue   # growth routines: whole-array relocation (not decided, see DESIGN C04)
        tt = CanonTaint(facts)
        group = tt.run_group(root)
        cnt = 0
        for b in group:
            st = tt.state[b.path]
            for i, t in b.calls():
                np_ = norm_path(t["f"]["path"])
                if np_ not in CELL_INDEXERS or len(t["args"]) < 2:
                    continue
                e = b.expr(t["args"][0], 8)
                if ("field", "node_adjacencies") not in leaves(e):
                    continue
                tags = tt.tags_of_op(b, st, t["args"][1])
                pos = [x for x in tags if x[0] == "POS"]
                cnt += 1
                site = "cells[%d]" % cnt
                if not pos:
                    v = Violation("CANON-POS", root.npath, site, b.file, t["line"],
                                  "node_adjacencies is indexed by a value that does not flow from to_linearized_matrix_position(): "
                                  "a hand-computed position disagrees with the stored (lower-triangular / row-major) layout", {})
                    r.bad(v)
                else:
                    bad_ty = [p for p in pos if p[1] != "self" and not re.fullmatch(r"Ty/#\d+", p[1])]
                    if bad_ty:
                        v = Violation("CANON-POS", root.npath, site + ":Ty", b.file, t["line"],
                                      "position computed with edge type %s instead of the graph's own Ty parameter" % bad_ty[0][1], {})
                        r.bad(v)
                    else:
                        r.ok(root.npath, site, "index flows from the position function (%s)" % sorted(set(p[1] for p in pos)))
        # built-in slice indexing: place projections  <..>.node_adjacencies[_p]
        for b in group:
            st = tt.state[b.path]
            for i, j, stm in b.stmts():
                pls = [stm["lhs"]]
                rv = stm["rv"]
                if rv["k"] in ("ref", "rawptr", "discr"):
                    pls.append(rv["pl"])
                for o in rv.get("o", []):
                    pp = op_place(o)
                    if pp:
                        pls.append(pp)
                for pl in pls:
                    seen_field = False
                    base_has = ("field", "node_adjacencies") in leaves(b.local_expr(pl["l"], 8))
                    for x in pl["p"]:
                        if isinstance(x, dict) and x.get("n") == "node_adjacencies":
                            seen_field = True
                        if isinstance(x, dict) and "ix" in x and (seen_field or base_has):
                            tags = set(st[x["ix"]])
                            pos = [y for y in tags if y[0] == "POS"]
                            cnt += 1
                            site = "cells[%d]" % cnt
                            if not pos:
                                v = Violation("CANON-POS", root.npath, site, b.file, stm["line"],
                                              "node_adjacencies[..] is indexed by a value that does not flow from "
                                              "to_linearized_matrix_position()", {})
                                r.bad(v)
                            else:
                                bad_ty = [p_ for p_ in pos if p_[1] != "self" and not re.fullmatch(r"Ty/#\d+", p_[1])]
                                if bad_ty:
                                    r.bad(Violation("CANON-POS", root.npath, site + ":Ty", b.file, stm["line"],
                                                    "position computed with edge type %s instead of the graph's own Ty" % bad_ty[0][1], {}))
                                else:
                                    r.ok(root.npath, site, "slice index flows from the position function")
        # the position wrappers themselves must call the position function with the impl's own Ty
        for b in group:
            for i, t in b.calls():
                if callee_name(t["f"]) == "matrix_graph::to_linearized_matrix_position":
                    ty = t["f"]["targs"][0] if t["f"].get("targs") else "?"
                    if not re.fullmatch(r"Ty/#\d+", ty):
                        v = Violation("CANON-POS", root.npath, "poscall:Ty", b.file, t["line"],
                                      "to_linearized_matrix_position::<%s> is not instantiated with the graph's own Ty parameter" % ty, {})
                        r.bad(v)
                    else:
                        r.ok(root.npath, "poscall", "to_linearized_matrix_position::<%s>" % ty)
    r.floor = 10
    r.floor_what = "cell accesses / position calls"
    return r
