"""Structural clauses added after the seventh round of independently seeded changes (same discipline as rules5/6)."""
import re

from .core import op_place, op_local, callee_name, last_seg, norm_path, walk_expr
from .report import RuleResult, Violation
from .guard import (Obl, dom_atoms, call_atom, has_call, agg_sites, calls_named, named_roots, roots_named, reach,
                    return_some_sites)
from .tag import leaves, strip_casts


def loop_body_avoids(b, head_call_blk, must_blocks):
    """True if some path from the Some-arm of the loop head `head_call_blk` (an Iterator::next call) leads back to the head without passing
    through any block of must_blocks"""
    succ = b.cfg()[0]
    sw = succ[head_call_blk][0] if succ[head_call_blk] else None
    while sw is not None and b.blocks[sw]["term"]["k"] == "goto":
        sw = succ[sw][0]
    if sw is None or b.blocks[sw]["term"]["k"] != "switch":
        return None
    body = None
    for (v, tgt) in b.switch_edges(sw):
        if v == 1:
            body = tgt
    if body is None:
        return None
    return head_call_blk in reach(b, body, avoid=set(must_blocks))


def innermost_head(b, blk):
    """the Iterator::next call block of the innermost loop that contains blk"""
    heads = [h for h, th in b.calls() if last_seg(th["f"]["path"]) == "next" and blk in reach(b, h) and h in reach(b, blk)]
    heads.sort(key=lambda h: len(reach(b, h)))
    return heads[0] if heads else None


# ------------------------------------------------------------------------------------------------ C02 (who may consult the index-type maximum)
MAY_MAX = {
    "graph_impl::serialization::invalid_length_err": "formats the limit into the error message",
    "from_deserialized": "the reader's length limits",
    "graph_impl::NodeIndex::end": "the sentinel", "graph_impl::EdgeIndex::end": "the sentinel",
    "«graph_impl::NodeIndex as graph_impl::IndexType»::max": "forwards",
    "graph_impl::Graph::try_add_node": "limit test", "graph_impl::Graph::try_add_edge": "limit test",
    "graph_impl::stable_graph::StableGraph::try_add_edge": "limit test", "graph_impl::stable_graph::StableGraph::try_add_node": "limit test",
    "matrix_graph::MatrixGraph::with_capacity_and_hasher": "capacity assertion", "matrix_graph::MatrixGraph::try_add_node": "limit test",
}


def who_consults_max(facts):
    r = RuleResult("WHO-MAX", "the index type's maximum (<Ix as IndexType>::max()) is consulted only by the functions that implement the index-type limit (try_add_*, the "
                              "deserialiser's length checks, end()): no other method - in particular no debug self-check or retain/filter path - makes a decision on it, "
                              "so nothing but `the structure is full` can fail at capacity")
    n = 0
    for b in facts.bodies:
        if "quickcheck" in b.file or not b.file.startswith("src/"):
            continue
        for i, t in b.calls():
            if not norm_path(t["f"]["path"]).endswith("IndexType::max"):
                continue
            n += 1
            owner = b.npath.split("::{closure")[0]
            why = MAY_MAX.get(owner) or ("the reader's length limits" if owner.endswith("::from_deserialized") else None)
            if why:
                r.ok(b.npath, "max#%d" % n, why)
            else:
                r.bad(Violation("WHO-MAX", b.npath, "IndexType::max", b.file, t["line"],
                                "%s consults <Ix as IndexType>::max(): a decision (assertion, early exit) outside the limit-implementing functions depends on the "
                                "index type's capacity - e.g. a debug self-check that rejects a free list of exactly Ix::max() slots panics on a valid u8 graph "
                                "filled to capacity" % owner))
    r.floor = 8
    r.floor_what = "IndexType::max() call sites"
    return r


# ------------------------------------------------------------------------------------------------ C04 (matrix growth moves row c to c * new_width)
def matrix_row_move(facts):
    o = Obl("FLOW-MATRIXMOVE", "extend_flat_square_matrix: every element move (swap_nonoverlapping / slice::swap) takes row c from offset c * old_capacity to offset "
                               "c * new_capacity - the destination index contains the product with the NEW capacity, on the fast path and on the overlapping-row path alike")
    for b in o.need_fn(facts, "matrix_graph::extend_flat_square_matrix"):
        n = 0
        # the new width: whatever is squared for the new length of the vector (new_node_capacity.pow(2)), or the parameter itself
        width = {("arg", 3)}
        for i, t in b.calls():
            if last_seg(t["f"]["path"]) == "pow" and t["args"]:
                width |= {x for x in leaves(b.expr(t["args"][0], 3)) if x[0] in ("arg", "local")}

        def has_mul_new(e):
            return any(isinstance(s, tuple) and s[0] == "bin" and s[1] in ("Mul", "MulWithOverflow") and (width & (leaves(s[2]) | leaves(s[3]))) for s in walk_expr(e))
        for i, t in b.calls():
            nm = last_seg(t["f"]["path"])
            np_ = norm_path(t["f"]["path"])
            if not (nm == "swap" and "slice" in np_) or len(t["args"]) < 3:
                continue
            n += 1
            e = b.expr(t["args"][2], 12)
            mul_new = has_mul_new(e)
            o.check(b, "swap-dest#%d" % n, t["line"], mul_new, "destination = c * new_node_capacity + i",
                    "the destination of an element move on the overlapping-row path does not contain c * new_node_capacity: rows c >= 2 land at the wrong "
                    "linear offset when a matrix created with a non-power-of-two capacity grows, so edges move to other node pairs")
        for i, t in b.calls():
            if last_seg(t["f"]["path"]) == "swap_nonoverlapping" and len(t["args"]) >= 2:
                n += 1
                e = b.expr(t["args"][1], 14)
                mul_new = has_mul_new(e)
                o.check(b, "swap_nonoverlapping-dest", t["line"], mul_new, "destination pointer offset = c * new_node_capacity",
                        "the destination of swap_nonoverlapping is not offset by c * new_node_capacity")
        o.check(b, "moves", b.line, n >= 1, "%d element move(s)" % n, "no element move found in extend_flat_square_matrix")
    o.r.floor = 2
    return o.r


# ------------------------------------------------------------------------------------------------ C05 (Csr bounds test against node_count)
def csr_endpoint_bounds(facts):
    o = Obl("GUARD-CSRBOUNDS", "Csr::add_edge_: the column / edges vectors are touched only after BOTH endpoints were tested against node_count() (a.index() < node_count() and "
                               "b.index() < node_count(), or an equivalent early Err) - not against row.len(), which is node_count() + 1")
    for b in o.need_fn(facts, "csr::Csr::add_edge_"):
        n = 0
        for i, t in b.calls():
            nm = last_seg(t["f"]["path"])
            if not (nm == "insert" and "Vec" in norm_path(t["f"]["path"])) and not callee_name(t["f"]).endswith("Csr::find_edge_pos"):
                continue
            n += 1
            okargs = set()
            for (e, truth, src) in dom_atoms(b, i):
                if not (isinstance(e, tuple) and e[0] == "bin" and truth is True and e[1] in ("Lt", "Gt")):
                    continue
                lo, hi = (e[2], e[3]) if e[1] == "Lt" else (e[3], e[2])
                hi_s = strip_casts(hi)
                bound_ok = isinstance(hi_s, tuple) and hi_s[0] == "call" and last_seg(hi_s[1]["path"]) == "node_count"
                if not bound_ok and isinstance(hi_s, tuple) and hi_s[0] in ("bin", "place"):
                    bound_ok = has_call(hi_s, ("len",)) and any(isinstance(s, tuple) and s[0] == "bin" and s[1].startswith("Sub") for s in walk_expr(hi_s))
                if bound_ok and has_call(lo, ("index",)):
                    okargs |= {x for x in leaves(lo) if x[0] == "arg"}
            ok = ("arg", 2) in okargs and ("arg", 3) in okargs
            o.check(b, "%s#%d" % (nm, n), t["line"], ok, "both endpoints < node_count() before the storage is touched",
                    "the storage is touched without both `a.index() < node_count()` and `b.index() < node_count()` dominating it (tested arguments: %s): an endpoint "
                    "equal to node_count() - one past the last node - is accepted, the entry lands past the last row and edge_count / row offsets go wrong"
                    % sorted(okargs))
        o.check(b, "sites", b.line, n >= 2, "%d storage access site(s)" % n, "find_edge_pos / insert sites not found in Csr::add_edge_")
    o.r.floor = 3
    return o.r


# ------------------------------------------------------------------------------------------------ C07 / C09 (TarjanScc::run re-initialises its whole table)
def tarjan_reset(facts):
    o = Obl("RESET-TABLE", "TarjanScc::run re-initialises the WHOLE per-node table of a reused state: a Vec::resize on it is preceded (on every path) by clear() or fill() - "
                           "resize alone initialises only the newly added tail and keeps the previous run's `already assigned` marks in the prefix")
    for b in o.need_fn(facts, "algo::TarjanScc::run"):
        n = 0
        clears = [i for i, t in b.calls() if last_seg(t["f"]["path"]) in ("clear", "fill", "truncate", "drain") and t["args"] and ("field", "nodes") in leaves(b.expr(t["args"][0], 10))]
        # a whole-field assignment (self.nodes = vec![..]) re-initialises everything as well
        clears += [i for i, j, st in b.stmts() if st["lhs"]["p"] and isinstance(st["lhs"]["p"][-1], dict) and st["lhs"]["p"][-1].get("n") == "nodes"]
        for i, t in b.calls():
            if last_seg(t["f"]["path"]) not in ("resize", "resize_with") or not t["args"] or ("field", "nodes") not in leaves(b.expr(t["args"][0], 10)):
                continue
            n += 1
            ok = any(b.dominates(c, i) and c != i for c in clears)
            o.check(b, "resize#%d" % n, t["line"], ok, "resize dominated by clear()/fill()",
                    "the node table is resized without having been cleared on that path: when a reused TarjanScc state is run on a graph with a larger "
                    "node_bound, the nodes below the old length keep their marks from the previous run and are never visited or reported")
        o.check(b, "whole-table-init", b.line, bool(clears), "%d clear / fill / whole-field assignment site(s)" % len(clears),
                "TarjanScc::run never clears, fills or reassigns its node table")
        o.check(b, "resizes", b.line, n >= 1 or bool(clears), "%d resize site(s), %d clear/fill site(s)" % (n, len(clears)), "no (re)initialisation of the node table found in TarjanScc::run")
    o.r.floor = 2
    return o.r


# ------------------------------------------------------------------------------------------------ C08 (move_to always clears)
def move_to_clears(facts):
    o = Obl("RESET-MOVETO", "Dfs::move_to / DfsPostOrder::move_to: `keep the discovered map, but clear the visit stack and restart` - every path through move_to passes "
                            "through stack.clear() (no early return that keeps pending entries)")
    for sfx in ("visit::traversal::Dfs::move_to", "visit::traversal::DfsPostOrder::move_to"):
        for b in o.need_fn(facts, sfx):
            clears = {i for i, t in b.calls() if last_seg(t["f"]["path"]) in ("clear", "truncate", "drain") and t["args"] and ("field", "stack") in leaves(b.expr(t["args"][0], 8))}
            clears |= {i for i, j, st in b.stmts() if st["lhs"]["p"] and isinstance(st["lhs"]["p"][-1], dict) and st["lhs"]["p"][-1].get("n") == "stack"}
            rets = [i for i, bl in enumerate(b.blocks) if bl["term"]["k"] == "return" and not bl["cleanup"]]
            esc = [r_ for r_ in rets if r_ in reach(b, 0, avoid=clears)]
            o.check(b, "always-clears", b.line, bool(clears) and not esc, "every path clears the stack",
                    "some path through move_to returns without clearing the stack: pending entries of the interrupted traversal survive the restart and nodes "
                    "that are not reachable from the new start are emitted")
    o.r.floor = 2
    return o.r


# ------------------------------------------------------------------------------------------------ C09 (bipartite: no neighbour is exempt)
def bipartite_unfiltered(facts):
    o = Obl("GUARD-BIPARTITE", "is_bipartite_undirected: the colour test is applied to EVERY neighbour - it is not preceded by a comparison of the neighbour with another node "
                               "(parent, start): a self-loop is an odd cycle")
    for b in o.need_fn(facts, "algo::is_bipartite_undirected"):
        n = 0
        for i, t in b.calls():
            if not norm_path(t["f"]["path"]).endswith("VisitMap::is_visited"):
                continue
            h = innermost_head(b, i)
            if h is None:
                continue
            if "Neighbors" not in (b.blocks[h]["term"]["f"].get("self", "") + str(b.blocks[h]["term"]["f"].get("targs", ""))):
                continue
            n += 1
            bad = []
            for (e, truth, src) in dom_atoms(b, i, named_leaf=True):
                if isinstance(e, tuple) and e[0] == "bin" and e[1] in ("Eq", "Ne") and h in reach(b, src) and src in reach(b, h):
                    lv = {x for x in leaves(e) if x[0] in ("local", "arg")}
                    if lv and not has_call(e, ("is_visited",)) and all("bool" not in b.lty(x[1]) for x in lv if x[0] == "local"):
                        bad.append(b.blocks[src]["term"]["line"])
            o.check(b, "colour-test#%d" % n, t["line"], not bad, "no node-identity filter before the colour test",
                    "the colour test of a neighbour is skipped under a node comparison (line %s): an edge to that node - e.g. a self-loop on the start node "
                    "compared with its sentinel parent - is never checked and a non-bipartite component is reported bipartite" % bad)
        o.check(b, "tests", b.line, n >= 1, "%d colour test(s) in the neighbour loop" % n, "colour tests not found in is_bipartite_undirected")
    o.r.floor = 2
    return o.r


# ------------------------------------------------------------------------------------------------ C12 (Kruskal queues every edge)
def kruskal_all_edges(facts):
    o = Obl("GUARD-KRUSKAL", "min_spanning_tree (Kruskal): every edge reference of the graph is queued - the heap push in the loop over edge_references() is reached on every "
                             "iteration (no de-duplication or endpoint filter before the queue: among parallel edges the lightest one has to be available)")
    for b in o.need_fn(facts, "algo::min_spanning_tree::min_spanning_tree"):
        n = 0
        for i, t in b.calls():
            if last_seg(t["f"]["path"]) != "push" or "BinaryHeap" not in norm_path(t["f"]["path"]):
                continue
            h = innermost_head(b, i)
            if h is None:
                continue
            n += 1
            skips = loop_body_avoids(b, h, [i])
            o.check(b, "queue#%d" % n, t["line"], skips is False, "no path through the loop body avoids the push",
                    "some edges are not queued (a path through the body of the edge loop returns to the loop head without pushing): when the skipped edge is the "
                    "lightest of several parallel edges the spanning forest is not minimal")
        # the same loop written as `edges.for_each(|edge| heap.push(..))`: the closure body is the loop body, and nothing may filter the iterator before it
        for cb in facts.with_closures(b):
            if cb is b:
                continue
            pushes = [i for i, t in cb.calls() if last_seg(t["f"]["path"]) == "push" and "BinaryHeap" in norm_path(t["f"]["path"])]
            if not pushes:
                continue
            users = [(i, t) for i, t in b.calls() if last_seg(t["f"]["path"]) in ("for_each", "try_for_each", "fold", "try_fold", "map") and
                     any(isinstance(s_, tuple) and s_[0] == "agg" and len(s_) > 1 and s_[1] == cb.path for a_ in t["args"] for s_ in walk_expr(b.expr(a_, 6)))]
            if not users:
                continue
            n += 1
            rets = {i for i, bl in enumerate(cb.blocks) if bl["term"]["k"] == "return" and not bl["cleanup"]}
            skips = bool(reach(cb, 0, avoid=set(pushes)) & rets)
            filt = []
            for (ui, ut) in users:
                for s_ in walk_expr(b.expr(ut["args"][0], 10)):
                    if isinstance(s_, tuple) and s_[0] == "call" and last_seg(s_[1]["path"]) in ("filter", "filter_map", "skip", "skip_while", "take", "take_while", "step_by"):
                        filt.append(last_seg(s_[1]["path"]))
            o.check(cb, "queue#%d" % n, cb.line, not skips and not filt, "the closure handed to for_each pushes on every path and the iterator is unfiltered",
                    "some edges are not queued (%s): when the skipped edge is the lightest of several parallel edges the spanning forest is not minimal" %
                    ("the iterator is filtered by %s" % filt[:2] if filt else "a path through the closure returns without pushing"))
        o.check(b, "queues", b.line, n >= 1, "%d queueing site(s)" % n, "edge queue push not found in min_spanning_tree")
    o.r.floor = 2
    return o.r


# ------------------------------------------------------------------------------------------------ C15 (who may use the dummy index)
MAY_DUMMY = ("algo::matching::maximum_matching", "algo::matching::find_join", "algo::matching::augment_path", "«G as algo::matching::WithDummy»::try_from_index",
             "«G as algo::matching::WithDummy»::dummy_idx")


def who_uses_dummy(facts):
    r = RuleResult("WHO-DUMMY", "matching: the dummy slot (index node_bound()) is an internal device of maximum_matching / find_join / augment_path; the accessors of Matching "
                                "(mate, contains_node, contains_edge, edges, nodes, len) never map a free node to it - they answer from Option<mate> alone")
    n = 0
    for b in facts.bodies:
        if b.file != "src/algo/matching.rs":
            continue
        for i, t in b.calls():
            if last_seg(t["f"]["path"]) != "dummy_idx":
                continue
            n += 1
            owner = b.npath.split("::{closure")[0]
            if owner in MAY_DUMMY:
                r.ok(b.npath, "dummy#%d" % n, "search internals")
            else:
                r.bad(Violation("WHO-DUMMY", b.npath, "dummy_idx", b.file, t["line"],
                                "%s uses the dummy index: a free / removed / non-existent node is mapped to node_bound(), which is a real id as soon as the graph "
                                "grows or equals the id just past the end - contains_edge(free, node_bound()) answers true" % owner))
    r.floor = 4
    r.floor_what = "dummy_idx() call sites"
    return r


# ------------------------------------------------------------------------------------------------ C16 / C11 (fixpoint flags are accumulated)
def fixpoint_flag_monotone(facts):
    r = RuleResult("FLOW-FIXFLAG", "fixpoint loops (simple_fast's `changed`, bellman_ford's `did_update`): a bool that is reset to false at the top of a sweep and tested after it is "
                                   "only ever SET inside the sweep (stored `true`, or |= ): it is never assigned a computed value, which would make it reflect the last "
                                   "element only and stop the iteration early")
    n = 0
    for b in facts.bodies:
        if not b.file.startswith("src/algo") or b.kind not in ("Fn", "AssocFn"):
            continue
        stores = {}
        for i, j, st in b.stmts():
            lhs = st["lhs"]
            if lhs["p"] or b.lty(lhs["l"]) != "bool" or not b.lname(lhs["l"]):
                continue
            stores.setdefault(lhs["l"], []).append((i, st))
        for l, sts in stores.items():
            consts = [(i, st) for (i, st) in sts if st["rv"]["k"] == "use" and "const" in st["rv"]["o"][0]]
            falses = [(i, st) for (i, st) in consts if st["rv"]["o"][0]["const"] in ("0", "false")]
            trues = [(i, st) for (i, st) in consts if st["rv"]["o"][0]["const"] in ("1", "true")]
            if not falses or len(sts) < 2:
                continue
            # the reset must sit in a loop, and the flag must be branched on
            in_loop = any(i in reach(b, s2) for (i, _) in falses for s2 in b.cfg()[0][i])
            tested = any(bl["term"]["k"] == "switch" and op_local(bl["term"]["d"]) is not None and
                         (op_local(bl["term"]["d"]) == l or ("local", l) in leaves(b.expr(bl["term"]["d"], 10)) or ("local", l) in leaves(b.expr_at(bl["term"]["d"], bi_, None, 10)))
                         for bi_, bl in enumerate(b.blocks) if not bl["cleanup"])
            if not in_loop or not tested:
                continue
            n += 1
            bad = []
            for (i, st) in sts:
                if (i, st) in consts:
                    continue
                rv = st["rv"]
                acc = rv["k"] == "bin" and rv["op"] == "BitOr" and any(op_local(o_) == l for o_ in rv["o"])
                if not acc:
                    bad.append(st["line"])
            site = "flag:%s" % b.lname(l)
            if bad:
                r.bad(Violation("FLOW-FIXFLAG", b.npath, site, b.file, bad[0],
                                "the fixpoint flag `%s` is assigned a computed value (line %s) instead of being set: after a sweep it only tells whether the LAST "
                                "element changed, so the iteration stops while other elements are still changing (simple_fast returns a well-formed but wrong "
                                "dominator tree on irreducible graphs that need three sweeps)" % (b.lname(l), bad)))
            else:
                r.ok(b.npath, site, "reset at the top of the sweep, only ever set (%d set site(s))" % len(trues))
    r.floor = 2
    r.floor_what = "fixpoint flags"
    return r


# ------------------------------------------------------------------------------------------------ C17 (Graph's reader rejects node holes)
def graph_rejects_holes(facts):
    o = Obl("WIRE-HOLES", "Graph's deserialiser rejects a stream with a non-empty node_holes sequence (a Graph has no vacancies; dropping the holes would shift every later "
                          "node index): the field is read through a mapped sequence whose element function always fails, and that reader is wired into DeserGraph")
    fn = o.need_fn(facts, "graph_impl::serialization::deser_graph_node_holes", only_configs=True) if False else facts.find("graph_impl::serialization::deser_graph_node_holes")
    if not fn:
        o.r.bad(Violation("WIRE-HOLES", "graph_impl::serialization::deser_graph_node_holes", "anchor-missing", "src/graph_impl/serialization.rs", 0,
                          "the rejecting reader of DeserGraph.node_holes is gone: a stream with node holes (a StableGraph with an interior vacancy) now loads as a Graph "
                          "with its holes dropped and every later node index shifted"))
        return o.r
    b = fn[0]
    # its element closure returns Err on every path
    always_err = False
    for cb in facts.with_closures(b)[1:]:
        rets = [st for _, _, st in cb.stmts() if st["lhs"]["l"] == 0 and not st["lhs"]["p"] and st["rv"]["k"] == "agg"]
        if rets and all(st["rv"].get("variant") == "Err" for st in rets):
            always_err = True
    o.check(b, "always-fails", b.line, always_err, "the element function returns Err on every path",
            "deser_graph_node_holes no longer fails on every element: node holes are accepted for a Graph")
    used = False
    for ob in facts.bodies:
        if ob.file != b.file or ob is b:
            continue
        for i, t in ob.calls():
            if callee_name(t["f"]).endswith("deser_graph_node_holes"):
                used = True
    o.check(b, "wired", b.line, used, "called from the derived Deserialize impl of DeserGraph (deserialize_with)",
            "deser_graph_node_holes is not referenced by DeserGraph's Deserialize impl any more (deserialize_with dropped): node holes are read as plain data and ignored")
    o.r.floor = 2
    return o.r


# ------------------------------------------------------------------------------------------------ C18 (graph6 order is decoded in usize)
NARROW = ("u8", "u16", "i8", "i16")


def graph6_order_width(facts):
    r = RuleResult("TYPE-G6ORDER", "graph6 decoder: the graph order (up to 258047, an 18-bit field) is accumulated in usize - no shift / multiply / add that builds a number from "
                                   "bits produces a u8 / u16 value (which would silently truncate orders >= 256)")
    n = 0
    for b in facts.bodies:
        if b.file != "src/graph6/graph6_decoder.rs" or b.kind not in ("Fn", "AssocFn", "Closure"):
            continue
        r.ok(b.npath, "scanned", "decoder body scanned for narrow shift / multiply accumulations")
        for i, j, st in b.stmts():
            rv = st["rv"]
            if rv["k"] != "bin" or not rv["op"].startswith(("Shl", "Mul", "BitOr")):
                continue
            n += 1
            ty = b.lty(st["lhs"]["l"])
            ty0 = ty.strip("()").split(",")[0].strip()
            if ty0 in NARROW and rv["op"].startswith(("Shl", "Mul")):
                r.bad(Violation("TYPE-G6ORDER", b.npath, "%s:%s" % (rv["op"], ty0), b.file, st["line"],
                                "a number is assembled from bits with %s in type %s: the 18-bit order of the long graph6 header is truncated to its low bits, so a "
                                "graph with 256 or more nodes decodes with order mod 256 and wrong edges" % (rv["op"], ty0)))
            else:
                r.ok(b.npath, "%s:%s" % (rv["op"], ty0), "wide enough")
    r.floor = 3
    r.floor_what = "decoder bodies scanned"
    return r


# ------------------------------------------------------------------------------------------------ C19 (try_* validate every argument)
def try_equiv_validates(facts):
    o = Obl("GUARD-TRYARGS", "UnionFind::try_equiv reports every out-of-range argument: each Ok exit is dominated by the successful bounds-checked lookups (try_find / "
                             "try_find_mut) of BOTH arguments - there is no shortcut (x == y) before them. (try_union's documented `x == y => Ok(false)` is the one "
                             "exception and is not covered by this clause)")
    for b in o.need_fn(facts, "unionfind::UnionFind::try_equiv"):
        n = 0

        def looked_up(bb, blk):
            args = set()
            for (e, truth, src) in dom_atoms(bb, blk):
                if isinstance(e, tuple) and e[0] == "discr" and has_call(e[1], ("try_find", "try_find_mut")):
                    for s in walk_expr(e[1]):
                        if isinstance(s, tuple) and s[0] == "call" and last_seg(s[1]["path"]) in ("try_find", "try_find_mut") and len(s[2]) > 1:
                            args |= {x for x in leaves(s[2][1]) if x[0] == "arg"}
            return args
        sites = []
        for i, j, st in b.stmts():
            rv = st["rv"]
            if st["lhs"]["l"] == 0 and not st["lhs"]["p"] and rv["k"] == "agg" and rv.get("variant") == "Ok":
                sites.append((st["line"], looked_up(b, i)))
        # an Ok built in a closure handed to map / map_or / and_then on a lookup: the closure runs only when that lookup succeeded
        for cb in facts.with_closures(b)[1:]:
            if not any(st["rv"]["k"] == "agg" and st["rv"].get("variant") == "Ok" and st["lhs"]["l"] == 0 for _, _, st in cb.stmts()):
                continue
            for i, t in b.calls():
                if last_seg(t["f"]["path"]) in ("map", "map_or", "map_or_else", "and_then") and any(
                        isinstance(strip_casts(b.expr(a, 3)), tuple) and strip_casts(b.expr(a, 3))[0] == "agg" and strip_casts(b.expr(a, 3))[1] == cb.path for a in t["args"][1:]):
                    args = looked_up(b, i)
                    for s in walk_expr(b.expr(t["args"][0], 8)):
                        if isinstance(s, tuple) and s[0] == "call" and last_seg(s[1]["path"]) in ("try_find", "try_find_mut") and len(s[2]) > 1:
                            args |= {x for x in leaves(s[2][1]) if x[0] == "arg"}
                    sites.append((t["line"], args))
        for (line, args) in sites:
            n += 1
            st = {"line": line}
            ok = ("arg", 2) in args and ("arg", 3) in args
            o.check(b, "ok-exit#%d" % n, st["line"], ok, "both arguments looked up (bounds-checked) before Ok",
                    "try_equiv returns Ok on a path on which not both arguments passed the bounds-checked lookup (checked: %s): try_equiv(x, x) with x out of range "
                    "answers Ok(true) instead of Err(x), and disagrees with the panicking equiv" % sorted(args))
        o.check(b, "ok-exits", b.line, n >= 1, "%d Ok exit(s)" % n, "no Ok exit found in try_equiv")
    o.r.floor = 2
    return o.r


# ------------------------------------------------------------------------------------------------ C20 (enumerate() positions are indices)
SHIFTING = ("filter", "filter_map", "skip", "skip_while", "step_by", "rev", "flat_map", "flatten", "map_while", "peekable_skip")


def enumerate_is_index(facts):
    r = RuleResult("FLOW-ENUMINDEX", "page_rank / parallel_page_rank: the position produced by enumerate() over the rank vector is used as a node index, so enumerate() is applied "
                                     "to the full vector - nothing that drops or reorders elements (filter, skip, rev, ...) sits between the vector and enumerate()")
    n = 0
    for b in facts.bodies:
        if b.file != "src/algo/page_rank.rs" or b.kind not in ("Fn", "AssocFn", "Closure"):
            continue
        for i, t in b.calls():
            if norm_path(t["f"]["path"]) != "core::iter::Iterator::enumerate":
                continue
            n += 1
            e = b.expr(t["args"][0], 10)
            bad = [last_seg(s[1]["path"]) for s in walk_expr(e) if isinstance(s, tuple) and s[0] == "call" and last_seg(s[1]["path"]) in SHIFTING and s[1].get("crate") != "petgraph"]
            if bad:
                r.bad(Violation("FLOW-ENUMINDEX", b.npath, "enumerate#%d" % n, b.file, t["line"],
                                "enumerate() follows %s(): the positions no longer are node indices - once an element is dropped every later rank is attributed to "
                                "the wrong node (with damping factor 1 a zero rank shifts all later nodes)" % bad[0]))
            else:
                r.ok(b.npath, "enumerate#%d" % n, "enumerates the whole sequence")
    r.floor = 2
    return r


# ------------------------------------------------------------------------------------------------ C14 (who may touch the scratch sets)
MAY_SCRATCH = ("acyclic::Acyclic::causal_cones", "acyclic::Acyclic::future_cone", "acyclic::Acyclic::past_cone", "«acyclic::Acyclic as core::clone::Clone»::clone",
               "«acyclic::Acyclic as core::fmt::Debug»::fmt", "acyclic::Acyclic::new", "acyclic::Acyclic::with_capacity", "acyclic::Acyclic::try_from_graph",
               "«acyclic::Acyclic as core::convert::TryFrom»::try_from", "«acyclic::Acyclic as core::default::Default»::default")


def who_touches_scratch(facts):
    r = RuleResult("WHO-SCRATCH", "Acyclic: the scratch bit sets `discovered` / `finished` are sized by node_bound() and indexed by NODE index; they are touched only by the cone "
                                  "DFS (causal_cones / future_cone / past_cone) and by construction / Clone / Debug - no other method uses them (e.g. as a set of "
                                  "topological POSITIONS, which are not bounded by node_bound() after removals)")
    n = 0
    seen = set()
    for b in facts.bodies:
        if not b.file.startswith("src/acyclic"):
            continue
        touched = False
        line = b.line
        for i, j, st in b.stmts():
            pls = [st["lhs"]]
            rv = st["rv"]
            if rv.get("pl"):
                pls.append(rv["pl"])
            for o_ in rv.get("o", []):
                q = op_place(o_)
                if q:
                    pls.append(q)
            for pl in pls:
                for x in pl["p"]:
                    if isinstance(x, dict) and x.get("n") in ("discovered", "finished") and "Acyclic" in x.get("a", ""):
                        touched = True
                        line = st["line"]
        if not touched:
            continue
        owner = b.npath.split("::{closure")[0]
        if owner in seen:
            continue
        seen.add(owner)
        n += 1
        if owner in MAY_SCRATCH or owner.endswith("::try_from") or owner.endswith("::clone") or owner.endswith("::fmt"):
            r.ok(b.npath, "scratch", "cone DFS / construction")
        else:
            r.bad(Violation("WHO-SCRATCH", owner, "scratch", b.file, line,
                            "%s touches the DFS scratch bit sets: they are sized by node_bound() and meant for node indices; used for anything else (e.g. topological "
                            "positions, which exceed node_bound() after a removal + add) they overflow and a valid insertion panics" % owner))
    r.floor = 3
    return r


# ------------------------------------------------------------------------------------------------ C06 / C03 (GraphMap::remove_node removes both entries of every link)
def graphmap_remove_node_links(facts):
    o = Obl("PAIR-GMREMOVE", "GraphMap::remove_node: for EVERY link of the removed node both the mirror adjacency entry at the other endpoint (remove_single_edge) and the edge "
                             "value (edges.swap_remove) are removed - no path through the loop over the links skips either of them")
    for b in o.need_fn(facts, "graphmap::GraphMap::remove_node"):
        mirror = [i for i, t in b.calls() if callee_name(t["f"]).endswith("GraphMap::remove_single_edge")]
        value = [i for i, t in b.calls() if t["f"].get("crate") == "indexmap" and last_seg(t["f"]["path"]) in ("swap_remove", "shift_remove", "swap_remove_full", "shift_remove_full")
                 and t["args"] and ("field", "edges") in leaves(b.expr(t["args"][0], 8))]
        o.check(b, "has-both", b.line, bool(mirror) and bool(value), "mirror removal and edge-value removal found", "remove_single_edge / edges.swap_remove not found in remove_node")
        for nm, sites, why in (("mirror", mirror, "the other endpoint keeps a stale adjacency entry naming the removed node (a ghost neighbour; edges_directed panics on it)"),
                               ("value", value, "the edge value stays in the edge map (edge_count too high, contains_edge true for a removed node)")):
            for i in sites:
                h = innermost_head(b, i)
                if h is None:
                    continue
                skips = loop_body_avoids(b, h, [i])
                o.check(b, "every-link-%s" % nm, b.blocks[i]["term"]["line"], skips is False, "reached for every link",
                        "some links of the removed node are processed without this removal: %s" % why)
    o.r.floor = 3
    return o.r
