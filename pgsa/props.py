"""Property -> rule instances (DESIGN section 4). Each entry is a function facts -> [RuleResult]."""
from . import dim, atomic, tag, pair, canon, deleg, guard, table, wire, flow, sibling, algo_rules, rules5, rules6, rules7, rules8

ALGO_FILES = {
    "C09": ("src/algo/mod.rs",),
    "C10": ("src/algo/dijkstra.rs", "src/algo/astar.rs", "src/algo/k_shortest_path.rs"),
    "C11": ("src/algo/bellman_ford.rs", "src/algo/spfa.rs", "src/algo/floyd_warshall.rs"),
    "C12": ("src/algo/min_spanning_tree.rs",),
    "C15": ("src/algo/matching.rs", "src/algo/ford_fulkerson.rs"),
    "C16": ("src/algo/articulation_points.rs", "src/algo/dominators.rs"),
    "C20": ("src/algo/maximal_cliques.rs", "src/algo/coloring.rs", "src/algo/feedback_arc_set.rs", "src/algo/tred.rs",
            "src/algo/simple_paths.rs", "src/algo/steiner_tree.rs", "src/algo/page_rank.rs"),
}

_cache = {}


def _dim_all(facts):
    k = ("dim", facts.source)
    if k not in _cache:
        _cache[k] = dim.run(facts)
    return _cache[k]


def _filter(rr, pred, floor=0):
    """restrict a whole-crate RuleResult to the sites of some files/functions"""
    from .report import RuleResult
    out = RuleResult(rr.rule, rr.clause)
    out.instances = [i for i in rr.instances if pred(i["func"])]
    out.violations = [v for v in rr.violations if pred(v.func)]
    out.notes = list(rr.notes)
    out.floor = floor
    return out


def _file_of_site(facts):
    """map normalised function path -> file"""
    m = {}
    for b in facts.bodies:
        m.setdefault(b.npath, b.file)
    return m


def dim_in_files(files, floor):
    def rule(facts):
        allr = _dim_all(facts)
        fm = _file_of_site(facts)

        def pred(fn):
            return any(fm.get(fn, "-").startswith(f) for f in files)
        outs = []
        tot = 0
        for k in ("DIM-HINT", "DIM-CARD", "DIM-RAW", "DIM-RANGE"):
            r = _filter(allr[k], pred)
            tot += len(r.instances)
            outs.append(r)
        outs[1].floor = floor
        outs[1].floor_what = "length-sink sites"
        return outs
    return rule


def dim_stride(facts):
    return [dim.stride(facts)]


C07_FILES = ("src/algo/", "src/visit/traversal.rs", "src/visit/dfsvisit.rs", "src/traits_graph.rs",
             "src/graph_impl/", "src/matrix_graph.rs", "src/csr.rs", "src/adj.rs", "src/graphmap.rs", "src/acyclic")

PROPS = {
    "C07": {
        "rules": [dim_in_files(C07_FILES, 40), dim_stride],
        "decides": "count/bound/hint/raw-id confusion clause: no container that is indexed by graph indices is sized by "
                   "node_count()/edge_count()/size_hint() where the graph may have vacant indices, no raw NodeId::index() "
                   "indexes a bound-sized container in generic code, and adjacency bit matrices use one stride",
        "not_decided": "equality/optimality of algorithm results across encodings; termination",
    },
}
for pid, files in ALGO_FILES.items():
    PROPS[pid] = {
        "rules": [dim_in_files(files, {"C09": 3, "C10": 1, "C11": 8, "C12": 1, "C15": 4, "C16": 1, "C20": 4}[pid])],
        "decides": "sizing clause only: scratch containers of these algorithms are sized by the index bound "
                   "(or by the count only where NodeCompactIndexable is required)",
        "not_decided": "that the algorithm's result meets its graph-theoretic specification",
    }


def atomic_for(types, floor):
    def rule(facts):
        k = ("atomic", facts.source)
        if k not in _cache:
            _cache[k] = atomic.run(facts)
        allr = _cache[k]
        fm = {}
        for b in facts.bodies:
            if atomic.in_scope(b):
                import re as _re
                from .core import strip_ref
                fm[b.npath] = _re.match(r"[\w:]+", strip_ref(b.lty(1))).group(0)
        r = _filter(allr, lambda fn: fm.get(fn) in types, floor)
        r.floor_what = "failure exits of fallible mutators"
        return [r]
    return rule


def tag_rules(facts):
    k = ("tag", facts.source)
    if k not in _cache:
        _cache[k] = tag.run(facts)
    return _cache[k]


def tag_only(funcs):
    def rule(facts):
        out = []
        for r in tag_rules(facts):
            f = _filter(r, lambda fn: any(fn.endswith("::" + x) for x in funcs), 0)
            out.append(f)
        out[0].floor = 4
        return out
    rule.only_configs = ("all", "serde")     # link_edges exists only with feature serde-1
    return rule


def _cached(key, fn):
    def rule(facts):
        k = (key, facts.source)
        if k not in _cache:
            _cache[k] = fn(facts)
        return _cache[k]
    return rule


_counters = _cached("pair.counters", pair.counters)
_lockstep = _cached("pair.lockstep", pair.lockstep)
_canon_gm = _cached("canon.graphmap", canon.graphmap)
_canon_mx = _cached("canon.matrix", canon.matrix)
_deleg = _cached("deleg", deleg.run)


def sub(rule, pred, floor):
    """restrict a cached whole-crate rule to the functions selected by pred(func, site)"""
    def r(facts):
        rr = rule(facts)
        from .report import RuleResult
        out = RuleResult(rr.rule, rr.clause)
        out.instances = [i for i in rr.instances if pred(i["func"], i["site"])]
        out.violations = [v for v in rr.violations if pred(v.func, v.site)]
        out.notes = list(rr.notes)
        out.floor = floor
        out.floor_what = rr.floor_what
        return [out]
    return r


STRUCT_FILES = {
    "C02": ("src/graph_impl/stable_graph/mod.rs",),
    "C04": ("src/matrix_graph.rs",),
    "C14": ("src/acyclic",),
}

PROPS.update({
    "C01": {
        "rules": [atomic_for(("graph_impl::Graph",), 5)],
        "decides": "failure atomicity: every Err / documented-None exit of Graph's &mut self mutators (try_add_node, try_add_edge, "
                   "try_update_edge, remove_node, remove_edge) is reached with no store through self",
        "not_decided": "that list surgery in remove_node/remove_edge/change_edge_links preserves the multigraph (inductive shape "
                       "invariant over runtime-indexed linked lists); iteration order and contents",
    },
    "C02": {
        "rules": [atomic_for(("graph_impl::stable_graph::StableGraph",), 8), tag_rules, dim_in_files(STRUCT_FILES["C02"], 3)],
        "decides": "failure atomicity of the try_* / remove_* mutators; tagged-slot discipline (no store to next/node of a slot reached "
                   "through a whole-array loop, a pub parameter or an index_twice pair without a dominating liveness test; no read of "
                   "next through a pub parameter without one); scratch/visit maps sized by node_bound",
        "not_decided": "index stability as a whole-history statement; acyclicity/completeness of the free lists (shape invariant)",
    },
    "C03": {
        "rules": [atomic_for(("graphmap::GraphMap",), 3)],
        "decides": "failure atomicity of remove_node's `false` exit, remove_single_edge and Build::add_edge's None exit",
        "not_decided": "equality with the reference simple graph; iteration contents",
    },
    "C04": {
        "rules": [atomic_for(("matrix_graph::MatrixGraph",), 5), dim_in_files(STRUCT_FILES["C04"], 2)],
        "decides": "failure atomicity of try_add_node, try_update_edge, add_or_update_edge, try_remove_edge, Build::add_edge; visit map "
                   "sized by node_bound",
        "not_decided": "that extend_flat_square_matrix's in-place relocation preserves (row,col)->value; iterator contents",
    },
    "C05": {
        "rules": [atomic_for(("csr::Csr", "adj::List"), 3)],
        "decides": "failure atomicity of Csr::try_add_edge / add_edge_ (Err and Ok(false) exits clean)",
        "not_decided": "row ordering, binary-search/linear agreement, from_sorted_edges acceptance set",
    },
    "C14": {
        "rules": [atomic_for(("acyclic::Acyclic", "acyclic::order_map::OrderMap"), 6), dim_in_files(STRUCT_FILES["C14"], 5)],
        "decides": "failure atomicity of try_add_edge, try_update_edge, update_ordering, remove_node, remove_edge (rejected insertion / "
                   "absent node leaves order map and graph untouched); order map and scratch bitsets sized by node_bound",
        "not_decided": "that Pearce-Kelly reordering yields a topological order; is_valid_edge <=> rejection",
    },
    "C17": {
        "rules": [tag_only(("link_edges",))],
        "decides": "every endpoint index read from the input passes a liveness test before its adjacency links are written "
                   "(StableGraph::link_edges)",
        "not_decided": "value-level round-trip equality; arbitrary byte mutations",
    },
    "C19": {
        "rules": [atomic_for(("unionfind::UnionFind",), 3)],
        "decides": "failure atomicity of try_union / try_find_mut (out-of-range arguments leave parent/rank untouched; path compression "
                   "excepted as representative-preserving)",
        "not_decided": "that the forest represents the generated partition",
    },
})

PROPS["C02"]["rules"].append(sub(_counters, lambda f, s: "StableGraph" in s, 9))
PROPS["C02"]["decides"] += "; cached counters: every occupancy change of a node/edge weight slot is paired with the node_count/edge_count update"
PROPS["C04"]["rules"] += [sub(_counters, lambda f, s: "MatrixGraph" in s, 5), sub(_canon_mx, lambda f, s: True, 10)]
PROPS["C04"]["decides"] += "; nb_edges updated with every cell occupancy change; every cell access indexed through to_linearized_matrix_position::<Ty>"
PROPS["C03"]["rules"].append(sub(_canon_gm, lambda f, s: True, 7))
PROPS["C03"]["decides"] += "; every keyed access to the edge map uses a key that flows from edge_key"
PROPS["C05"]["rules"].append(sub(_lockstep, lambda f, s: s.startswith("Csr"), 4))
PROPS["C05"]["decides"] += "; Csr's lock-step vectors (column/edges, row/node_weights) get the same mutating calls at the same position"
PROPS["C19"]["rules"].append(sub(_lockstep, lambda f, s: s.startswith("UnionFind"), 1))
PROPS["C19"]["decides"] += "; parent and rank grow in lock step"
PROPS["C06"] = {
    "rules": [dim_stride, sub(_deleg, lambda f, s: True, 60), sub(_canon_gm, lambda f, s: "EdgeIndexable" in f or True, 7)],
    "decides": "adjacency bit matrices are built and queried with one row stride (node_bound for sparse-index types); no adaptor "
               "forwards verbatim a trait method that its transformation changes (Reversed: pair/direction/adjacency/edge-reference "
               "methods; filters: counts, enumerations, adjacency, matrix; UndirectedAdaptor: adjacency, directedness); sparse-index "
               "types and subset adaptors have no NodeCompactIndexable / count impls; GraphMap's EdgeIndexable normalises ids with edge_key",
    "not_decided": "that iterators enumerate the right elements; filter predicate semantics; hand-written adaptor bodies' correctness",
}

_visit = _cached("guard.visit_once", guard.visit_once)
_dfsev = _cached("guard.dfs_events", guard.dfs_events)
_unchk = _cached("guard.unchecked", guard.unchecked)
_limit = _cached("guard.limit", guard.limit)
_sibl = _cached("guard.sibling", guard.sibling_bounds)
_scored = _cached("table.scored", table.scored)
_escape = _cached("table.escaper", table.escaper)
_dirs = _cached("table.directions", table.directions)
_dotst = _cached("table.dot_statics", table.dot_statics)
_vmap = _cached("table.visitmap", table.visitmap)


def fn_has(*subs):
    return lambda f, s: any(x in f for x in subs)


PROPS["C08"] = {
    "rules": [sub(_visit, fn_has("visit::traversal::"), 9), sub(_dfsev, lambda f, s: True, 14), sub(_vmap, lambda f, s: True, 6)],
    "decides": "visit-once clauses: Dfs/DfsPostOrder/Topo emit a node only under the test-and-set that marks it, Bfs marks on push and marks "
               "its start; dfs_visitor's event table (Tree/Back/CrossForward by discovered/finished state of the target, Discover under "
               "discovered.visit, Finish after finished.visit, recursion only into undiscovered targets, nothing visited after a break); "
               "VisitMap impls' decision tables (visit = newly inserted, is_visited = membership, unvisit only removes a present element)",
    "not_decided": "reachability completeness, BFS distance order, the post-order property, Topo's predecessor condition as a whole",
}
PROPS["C09"]["rules"].append(sub(_visit, fn_has("algo::toposort"), 2))
PROPS["C09"]["decides"] += "; toposort's inlined DFS records a node as finished only under discovered.visit==false and finished.visit==true"
PROPS["C10"]["rules"] += [sub(_visit, fn_has("algo::dijkstra"), 3), sub(_scored, fn_has("MinScored"), 3)]
PROPS["C10"]["decides"] += "; dijkstra relaxes only from an unsettled popped node into unsettled targets; MinScored's comparison table is a total " \
                           "order, reversed, NaN last, with eq/partial_cmp defined through cmp"
PROPS["C12"]["rules"] += [sub(_visit, fn_has("min_spanning_tree"), 4), sub(_scored, fn_has("MinScored"), 3)]
PROPS["C12"]["decides"] += "; Kruskal emits an edge only under union()==true, Prim only under !nodes_taken.contains(target); MinScored table"
PROPS["C01"]["rules"] += [sub(_unchk, fn_has("graph_impl::index_twice", "graph_impl::Graph::index_twice_mut"), 4),
                          sub(_limit, fn_has("graph_impl::Graph::"), 8)]
PROPS["C01"]["decides"] += "; unchecked access: index_twice's raw offsets dominated by max(a,b)<len and a!=b, index_twice_mut's raw reborrows by its " \
                           "distinctness assertion; index-type limit: a slot is pushed only after `max()==!0 || end()!=new_index` with new_index from the vector's length"
PROPS["C02"]["rules"] += [sub(_unchk, fn_has("StableGraph::index_twice_mut", "graph_impl::index_twice"), 4), sub(_limit, fn_has("StableGraph"), 4)]
PROPS["C02"]["decides"] += "; unchecked access and index-type limit as for Graph"
PROPS["C04"]["rules"] += [sub(_unchk, fn_has("matrix_graph::"), 2), sub(_limit, fn_has("matrix_graph::"), 4)]
PROPS["C04"]["decides"] += "; swap_nonoverlapping dominated by pos+n<=new_pos; try_add_node's id allocation behind the index-type limit test"
PROPS["C05"]["rules"].append(sub(_sibl, lambda f, s: True, 1))
PROPS["C05"]["decides"] += "; every successor pushed into an adj::List row is dominated by target.index() < node count"
PROPS["C19"]["rules"].append(sub(_unchk, fn_has("unionfind::"), 8))
PROPS["C19"]["decides"] += "; every get_unchecked*/find_mut_recursive use is dominated by x.index() < len (or indexed by the loop variable of 0..len); " \
                           "the unchecked helpers stay private unsafe fns"
PROPS["C03"]["rules"].append(sub(_dirs, lambda f, s: True, 4))
PROPS["C03"]["decides"] += "; Direction/CompactDirection variant order and conversion tables agree"
PROPS["C18"] = {
    "rules": [sub(_escape, lambda f, s: True, 5), sub(_dotst, lambda f, s: True, 1), dim_stride],
    "decides": "Dot label escaping table (backslash before quote and backslash, newline -> \\l, others unchanged; write_str escapes char by char); "
               "TYPE/EDGE pair digraph with ->; the adjacency bit matrix that the graph6 encoder reads is built and queried with one stride",
    "not_decided": "spec-exactness of graph6 bit packing and triangle traversal order; DOT grammar validity of the whole output",
}

def _serde_only(rule):
    rule.only_configs = ("all", "serde")
    return rule


def _wire_serde(facts):
    return [wire.serde_structs(facts)] + wire.from_deserialized(facts)


PROPS["C17"]["rules"].append(_serde_only(_cached("wire.serde", _wire_serde)))
PROPS["C17"]["decides"] += "; the four wire structs agree on field order, container and field names; the edge tuple is (source, target, w) on the " \
                           "writer and feeds node: [i, j] on the reader; every Ok exit of from_deserialized is dominated by the edge-property check, both " \
                           "length checks and link_edges' Ok arm; the reader's length predicate is compared with what try_add_* can build"
PROPS["C18"]["rules"].append(sub(_cached("wire.graph6", wire.graph6_constants), lambda f, s: True, 6))
PROPS["C18"]["decides"] += "; graph6 encoder and decoder agree on N = 63, 6 bits per byte, the order < N / first byte == N header split, " \
                           "18 header bits = 3 decoder bytes, and the 258047 cap"

_flow_acyclic = _cached("flow.acyclic", flow.acyclic)
_flow_dot = _cached("flow.dot", flow.dot_sanitiser)
PROPS["C14"]["rules"].append(sub(_flow_acyclic, lambda f, s: True, 9))
PROPS["C14"]["decides"] += "; the inner graph's add_edge/update_edge is reached only after a != b and update_ordering == Ok; the scratch bit sets are " \
                           "cleared on every path from the cone DFS to the return; Graph::remove_node is followed by re-keying the order map; " \
                           "add_node/remove_node touch graph and order map together"
PROPS["C18"]["rules"].append(sub(_flow_dot, lambda f, s: True, 5))
PROPS["C18"]["decides"] += "; every user-formatted label (FnFmt) is wrapped in Escaped, the user closures are never called with the raw formatter, " \
                           "Escaped::fmt writes through an Escaper, edge statements print to_index(source) before to_index(target)"

_sib = _cached("sibling", sibling.run)
_diridx = _cached("diridx", sibling.diridx)
_tedges = _cached("table.edges", table.edges_next)
_tneigh = _cached("table.neighbors", table.neighbors_next)
_fswap = _cached("fieldswap", sibling.fieldswap)
_kcons = _cached("kcons", sibling.k_consistency)
_gm_lock = _cached("guard.graphmap", guard.graphmap_lockstep)
_mx_order = _cached("guard.matrix_order", guard.matrix_order)
for _pid in ("C01", "C02"):
    PROPS[_pid]["rules"] += [sub(_sib, lambda f, s: True, 6), sub(_diridx, lambda f, s: True, 6), sub(_fswap, lambda f, s: True, 2),
                             sub(_kcons, lambda f, s: True, 5),
                             sub(_tedges, (lambda f, s: "stable_graph" not in f) if _pid == "C01" else (lambda f, s: "stable_graph" in f), 12),
                             sub(_tneigh, (lambda f, s: "stable_graph" not in f) if _pid == "C01" else (lambda f, s: "stable_graph" in f), 3)]
    PROPS[_pid]["decides"] += "; Graph's and StableGraph's twin iterator implementations access next[i]/node[i] with the same constant indices " \
                              "(sibling cross-check) and a list cursor next[i] is only advanced from a next[i] link with the same i; reverse() swaps every " \
                              "[_; 2] field of Node and Edge; Edges::next / Neighbors::next decision tables (which list is walked, which endpoint is reported, when " \
                              "endpoints are swapped, self-loop skip) match the documented table; the per-direction loops of remove_node/change_edge_links index every direction array by their own k"
PROPS["C06"]["rules"] += [sub(_sib, lambda f, s: True, 6), sub(_tedges, lambda f, s: True, 20), sub(_tneigh, lambda f, s: True, 6)]
PROPS["C06"]["decides"] += "; Graph/StableGraph neighbors_directed and iterator siblings agree on their direction-indexed accesses"
PROPS["C03"]["rules"].append(sub(_gm_lock, lambda f, s: True, 7))
PROPS["C03"]["decides"] += "; the edge map is never updated conditionally on an adjacency-list update; add_edge/remove_edge insert/remove the " \
                           "Incoming mirror exactly under a != b"
PROPS["C04"]["rules"].append(sub(_mx_order, lambda f, s: True, 2))
PROPS["C04"]["decides"] += "; remove_node releases the node id only after the loop that clears its row and column"

_ALGO = [
    ("C12", algo_rules.mst_positions, 8, "Kruskal/Prim emit edge endpoints looked up in node_map (stream positions), never raw to_index values"),
    ("C20", algo_rules.simple_paths, 2, "all_simple_paths pushes a child onto the path only under child != to"),
    ("C16", algo_rules.lowlink, 3, "articulation_points' low-link updates use disc[v] across an edge to a visited non-parent vertex and low[child] after a finished child"),
    ("C10", algo_rules.kshortest_unfiltered, 2, "k_shortest_path relaxes every out-edge (no endpoint / visited filter on the heap push)"),
    ("C19", algo_rules.labeling, 2, "into_labeling stores the representative found for each element back into the labeling"),
    ("C09", algo_rules.labeling, 2, "connected_components' labeling (UnionFind::into_labeling) stores the representative found for each element"),
    ("C14", algo_rules.map_len_as_key, 2, "OrderMap never uses a map's len() as a fresh key of that map"),
    ("C02", algo_rules.freelist_backlinks, 3, "every push onto the doubly linked free-node list writes the old head's back link"),
    ("C17", algo_rules.freelist_backlinks, 3, "link_edges rebuilds the free-node list doubly linked (back links written)"),
    ("C15", algo_rules.residual_bfs, 3, "ford_fulkerson's residual BFS over out+in edges moves to other_endpoint(edge, vertex)"),
]
for _pid, _fn, _floor, _txt in _ALGO:
    _r = sub(_cached("algo." + _fn.__name__, _fn), lambda f, s: True, _floor)
    if _pid == "C17":
        _r = _serde_only(_r)
    PROPS[_pid]["rules"].append(_r)
    PROPS[_pid]["decides"] += "; " + _txt
PROPS["C18"]["decides"] += "; node statements print to_index(node.id())"

_reset = _cached("reset_all", algo_rules.reset_complete)
_bover = _cached("build_overrides", deleg.build_overrides)
for _pid, _pred, _fl, _txt in (
        ("C08", lambda f, s: "visit::traversal" in f, 3, "Dfs/DfsPostOrder/Topo::reset re-initialise every state field"),
        ("C09", lambda f, s: "visit::traversal" in f, 3, "a reused DfsSpace is fully reset (Dfs::reset clears map and stack)"),
        ("C01", lambda f, s: f.startswith("graph_impl::Graph::"), 1, "Graph::clear re-initialises every field"),
        ("C02", lambda f, s: "StableGraph" in f, 1, "StableGraph::clear re-initialises every field"),
        ("C03", lambda f, s: "GraphMap" in f, 1, "GraphMap::clear re-initialises both maps"),
        ("C04", lambda f, s: "MatrixGraph" in f, 1, "MatrixGraph::clear re-initialises cells, ids and the counter")):
    PROPS[_pid]["rules"].append(sub(_reset, _pred, _fl))
    PROPS[_pid]["decides"] += "; " + _txt
for _pid, _pred in (("C01", lambda f, s: "graph_impl::Graph" in f and "stable" not in f), ("C02", lambda f, s: "StableGraph" in f), ("C05", lambda f, s: "adj::List" in f)):
    PROPS[_pid]["rules"].append(sub(_bover, _pred, 1))
    PROPS[_pid]["decides"] += "; Build::add_edge is overridden (the trait default update_edge would merge parallel edges)"

_ctrl = _cached("table.control_flow", table.control_flow)
PROPS["C08"]["rules"].append(sub(_ctrl, lambda f, s: True, 8))
PROPS["C08"]["decides"] += "; ControlFlow impls' decision tables (Control, (), Result<C,E>: should_break / should_prune)"
PROPS["C17"]["rules"].append(_serde_only(sub(_cached("algo.untrusted_alloc", algo_rules.untrusted_alloc), lambda f, s: True, 1)))
PROPS["C17"]["decides"] += "; no allocation in the deserialisation code is sized by an input-provided length (SeqAccess::size_hint)"
PROPS["C11"]["rules"].append(sub(_cached("algo.negcycle", algo_rules.negative_cycle_suffix), lambda f, s: True, 2))
PROPS["C11"]["decides"] += "; find_negative_cycle keeps the walk from the first repeated node onwards (path[pos..])"
_idit = _cached("guard.id_iterator", guard.id_iterator)
for _pid in ("C04", "C06", "C18"):
    PROPS[_pid]["rules"].append(sub(_idit, lambda f, s: True, 3))
    PROPS[_pid]["decides"] += "; MatrixGraph's IdIterator skips removed ids in a loop and yields only ids < upper_bound"
# C07 (algorithms depend only on the abstract graph) also carries every algorithm-specific structural clause
for _pid, _fn, _floor, _txt in _ALGO:
    if _pid in ("C12", "C20", "C16", "C10", "C15", "C09"):
        PROPS["C07"]["rules"].append(sub(_cached("algo." + _fn.__name__, _fn), lambda f, s: True, _floor))
PROPS["C07"]["rules"] += [sub(_cached("algo.negcycle", algo_rules.negative_cycle_suffix), lambda f, s: True, 2), sub(_visit, lambda f, s: True, 14)]
PROPS["C07"]["decides"] += "; plus the algorithm-specific structural clauses listed under C09-C12, C15, C16, C20 (visit-once guards, MST stream positions, " \
                           "low-link rule, unfiltered k-shortest relaxation, residual BFS endpoint, labeling write-back, simple-path target exclusion)"

PROPS["C03"]["rules"].append(sub(_cached("table.graphmap_iters", table.graphmap_iters), lambda f, s: True, 8))
PROPS["C03"]["decides"] += "; the adjacency filters of neighbors()/neighbors_directed() keep exactly the documented entries (decision table over entry " \
                           "direction x queried direction x self-loop)"

_R4 = [
    (("C04", "C06", "C07"), algo_rules.id_storage, 4, "IdStorage resizes its element vector only for a fresh id and lowers upper_bound one step at a time"),
    (("C09", "C07"), algo_rules.workspace_reset, 2, "a direct push onto a Dfs workspace stack is dominated by reset/move_to/clear"),
    (("C11", "C07"), algo_rules.spfa_dequeue, 3, "spfa marks the popped vertex dequeued before scanning its edges"),
    (("C12",), algo_rules.from_elements_orientation, 2, "FromElements keeps each Element::Edge's orientation (from <- source, to <- target)"),
    (("C14",), algo_rules.ordermap_growth, 1, "OrderMap.node_to_pos grows only by resize(node_bound()), never by push"),
    (("C15", "C07"), algo_rules.matching_accessor, 1, "Matching::mate reads the mate vector bounds-checked"),
    (("C16", "C07"), algo_rules.ap_root_test, 3, "articulation_points' root test does not use discovery times"),
    (("C20", "C07"), algo_rules.grow_then_index, 2, "a vector grown under `len <= ix` gets a length derived from ix (or an index bound)"),
]
for _pids, _fn, _floor, _txt in _R4:
    for _pid in _pids:
        PROPS[_pid]["rules"].append(sub(_cached("algo." + _fn.__name__, _fn), lambda f, s: True, _floor))
        if _pid != "C07":
            PROPS[_pid]["decides"] += "; " + _txt

# ---- round 5 (rules5): (properties, rule, floor-or-{pid: floor}, per-property site predicate or None, text)
_nas = lambda pid: {"C01": lambda f, s: "graph_impl::" in f and "stable_graph" not in f, "C02": lambda f, s: "stable_graph" in f,
                    "C04": lambda f, s: "matrix_graph::" in f, "C05": lambda f, s: "csr::" in f or "adj::" in f,
                    "C06": lambda f, s: "visit::filter" in f}[pid]
_R5 = [
    (("C19",), rules5.rank_increment, 2, None, "try_union increments a rank only when the two ranks compared Equal"),
    (("C20", "C07"), rules5.simple_paths_min, 3, None, "all_simple_paths yields only under visited.len() >= min_length"),
    (("C16",), rules5.dominators_root, 2, None, "Dominators reads idom values only under node != root (the root's self entry is never exposed)"),
    (("C10", "C07"), rules5.close_only_popped, 2, None, "dijkstra closes only the node popped from the heap"),
    (("C15", "C07"), rules5.visitor_then_mark, 3, None, "non_backtracking_dfs always traverses (marks) the node it handed to the visitor"),
    (("C01", "C02", "C04", "C05", "C06"), rules5.none_after_some, {"C01": 3, "C02": 3, "C04": 3, "C05": 2, "C06": 3}, _nas,
     "an enumeration iterator never ends right after taking an element from its underlying source"),
    (("C01", "C02"), rules5.dir_param_index, {"C01": 8, "C02": 2},
     lambda pid: (lambda f, s: "stable_graph" not in f) if pid == "C01" else (lambda f, s: "stable_graph" in f),
     "direction-parametrised accessors index next[]/node[] only by their own direction's k"),
    (("C06",), rules5.filter_flag, 6, None, "NodeFiltered's include_source is exactly include_node(queried node)"),
    (("C03",), rules5.graphmap_incoming_mirror, 1, None, "no GraphMap method pushes an Incoming adjacency entry without a != b"),
    (("C17", "C03"), rules5.nodes_before_edges, 3, None, "GraphMap::from_graph inserts all nodes (in node order) before any edge"),
    (("C11",), rules5.float_overflow_table, 2, None, "float overflowing_add never reports overflow for operands of opposite sign (sign table)"),
    (("C04", "C06"), rules5.matrix_edges_table, 4, None, "MatrixGraph Edges::next yields (row, column) of the cell read in both scan directions; Neighbors::next yields the scanned coordinate"),
    (("C05",), rules5.search_contract, 1, None, "Csr::find_edge_pos returns Ok exactly when an inspected element compares Equal (search table over comparison outcomes)"),
]
for _pids, _fn, _floor, _predf, _txt in _R5:
    for _pid in _pids:
        _fl = _floor[_pid] if isinstance(_floor, dict) else _floor
        _pr = _predf(_pid) if _predf else (lambda f, s: True)
        PROPS[_pid]["rules"].append(sub(_cached("r5." + _fn.__name__, _fn), _pr, _fl))
        if _pid != "C07":
            PROPS[_pid]["decides"] += "; " + _txt

PROPS["C06"]["rules"].append(sub(_vmap, lambda f, s: "FixedBitSet" in f or "FixedBitSet" in s, 3))
PROPS["C06"]["decides"] += "; a FixedBitSet used as a node filter answers from membership alone (VisitMap table with free comparisons)"
# ---- round 6 (rules6)
_R6 = [
    (("C01", "C02"), rules6.who_grows, {"C01": 2, "C02": 2}, lambda pid: (lambda f, s: "stable_graph" not in f) if pid == "C01" else (lambda f, s: "stable_graph" in f),
     "Graph's slot vectors are lengthened only inside the functions that carry the index-type limit test"),
    (("C02",), rules6.index_directed_creation, 2, None, "ensure_node_exists never allocates through the free list (add_node)"),
    (("C04", "C06"), rules6.matrix_cell_bounds, 3, None, "MatrixGraph Edges::next reads a cell only with both coordinates below node_capacity"),
    (("C05", "C06"), rules6.csr_mirror_enumeration, 2, None, "Csr stores an undirected edge twice and counts it once, so EdgeReferences::next skips the mirrored copy"),
    (("C05",), rules6.list_search_direction, 2, None, "adj::List find_edge / update_edge both pick the first match of a forward scan"),
    (("C06",), rules6.undirected_adaptor_symm, 2, None, "UndirectedAdaptor's neighbors/edges exclude a self-loop from one of the two chained halves (known finding: they do not)"),
    (("C06",), rules6.reversed_one_to_one, 2, None, "Reversed's iterators map the inner iterator one to one"),
    (("C09", "C07"), rules6.condensation_simple, 2, None, "condensation uses add_edge only when make_acyclic is false"),
    (("C10", "C07"), rules6.entry_arms, 3, None, "both arms of a score-table entry store the same quantity"),
    (("C11", "C07"), rules6.negcheck_unfiltered, 3, None, "bellman_ford's relaxation test is not filtered by an endpoint comparison"),
    (("C11", "C07"), rules6.fw_diagonal_first, 2, None, "floyd_warshall initialises the self-distances before it enters the edge costs (a negative self-loop stays visible)"),
    (("C11", "C07"), rules6.fw_infinity_guard, 2, None, "floyd_warshall adds two legs only when neither is max() (unreachable stays unreachable)"),
    (("C11", "C07"), rules6.spfa_fifo, 2, None, "spfa's work list is FIFO (the |V|-visits bound behind its Err holds for that order only)"),
    (("C11", "C07"), rules6.negcycle_last_relaxation, 3, None, "find_negative_cycle records the last relaxation (predecessor[j] = i) before it follows the chain from j"),
    (("C14",), rules6.scratch_grow_guard, 3, None, "causal_cones grows its scratch sets under len() < node_bound() only"),
    (("C15", "C07"), rules6.label_reset_whole, 2, None, "maximum_matching resets the whole label vector (dummy slot included)"),
    (("C16", "C07"), rules6.ap_no_disc_zero, 1, None, "articulation_points never branches on a discovery time compared with a constant"),
    (("C18",), rules6.graph6_ids, 2, None, "the graph6 encoder queries is_adjacent with ids yielded by node_identifiers()"),
    (("C20",), rules6.dsatur_count, 2, None, "dsatur_coloring's colour count is maximum + 1 only when a node was coloured"),
    (("C20",), rules6.closure_index_type, 2, None, "steiner_tree's metric-closure graph has a concrete index type"),
]
for _pids, _fn, _floor, _predf, _txt in _R6:
    for _pid in _pids:
        _fl = _floor[_pid] if isinstance(_floor, dict) else _floor
        _pr = _predf(_pid) if _predf else (lambda f, s: True)
        PROPS[_pid]["rules"].append(sub(_cached("r6." + _fn.__name__, _fn), _pr, _fl))
        if _pid != "C07":
            PROPS[_pid]["decides"] += "; " + _txt

# ---- round 7 (rules7)
_R7 = [
    (("C02", "C01", "C04"), rules7.who_consults_max, {"C01": 3, "C02": 1, "C04": 2},
     lambda pid: {"C01": (lambda f, s: "graph_impl::" in f and "stable_graph" not in f), "C02": (lambda f, s: "stable_graph" in f), "C04": (lambda f, s: "matrix_graph" in f)}[pid],
     "IndexType::max() is consulted only by the functions that implement the index-type limit"),
    (("C04",), rules7.matrix_row_move, 2, None, "extend_flat_square_matrix moves row c to c * new capacity on both paths"),
    (("C05",), rules7.csr_endpoint_bounds, 3, None, "Csr::add_edge_ tests both endpoints against node_count() before touching the storage"),
    (("C07", "C09"), rules7.tarjan_reset, 2, None, "TarjanScc::run clears its table before resizing it"),
    (("C08", "C09"), rules7.move_to_clears, 2, None, "move_to clears the stack on every path"),
    (("C09", "C07"), rules7.bipartite_unfiltered, 2, None, "is_bipartite_undirected tests every neighbour's colour (no node-identity filter)"),
    (("C12", "C07"), rules7.kruskal_all_edges, 2, None, "Kruskal queues every edge reference"),
    (("C15",), rules7.who_uses_dummy, 4, None, "Matching's accessors never use the dummy index"),
    (("C16", "C11", "C07"), rules7.fixpoint_flag_monotone, {"C16": 1, "C11": 1, "C07": 2},
     lambda pid: {"C16": (lambda f, s: "dominators" in f), "C11": (lambda f, s: "bellman_ford" in f), "C07": (lambda f, s: True)}[pid],
     "fixpoint flags are reset per sweep and only ever set inside it"),
    (("C17",), rules7.graph_rejects_holes, 2, None, "Graph's reader rejects node holes (always-failing element reader wired into DeserGraph)"),
    (("C18",), rules7.graph6_order_width, 3, None, "the graph6 order is never assembled in a type narrower than usize"),
    (("C19",), rules7.try_equiv_validates, 2, None, "try_equiv looks both arguments up before any Ok"),
    (("C20",), rules7.enumerate_is_index, 2, None, "page_rank enumerates the whole rank vector (positions are node indices)"),
    (("C14",), rules7.who_touches_scratch, 3, None, "Acyclic's scratch bit sets are touched only by the cone DFS and construction"),
    (("C03", "C06"), rules7.graphmap_remove_node_links, 3, None, "GraphMap::remove_node removes mirror entry and edge value for every link"),
]
for _pids, _fn, _floor, _predf, _txt in _R7:
    for _pid in _pids:
        _fl = _floor[_pid] if isinstance(_floor, dict) else _floor
        _pr = _predf(_pid) if _predf else (lambda f, s: True)
        _rule = sub(_cached("r7." + _fn.__name__, _fn), _pr, _fl)
        if _fn is rules7.graph_rejects_holes:
            _rule = _serde_only(_rule)
        PROPS[_pid]["rules"].append(_rule)
        if _pid != "C07":
            PROPS[_pid]["decides"] += "; " + _txt

# ---- round 8 (rules8)
_R8 = [
    (("C01",), rules8.index_twice_kinds, 1, None, "index_twice_mut bounds an index only by the length of its own kind"),
    (("C04",), rules8.matrix_checked_position, 2, None, "MatrixGraph::to_edge_position answers Some only with both node indices below node_capacity"),
    (("C07", "C09"), rules8.tarjan_component_count, 1, None, "TarjanScc stores componentcount after every component emission"),
    (("C15",), rules8.matching_is_empty, 1, None, "Matching::is_empty derives from the edge count, not from the mate vector"),
    (("C16", "C11", "C07"), rules8.fixpoint_store_flagged, {"C16": 1, "C11": 2, "C07": 3},
     lambda pid: {"C16": (lambda f, s: "dominators" in f), "C11": (lambda f, s: "bellman_ford" in f), "C07": (lambda f, s: True)}[pid],
     "inside a fixpoint sweep every table store implies the flag is raised"),
    (("C20",), rules8.page_rank_whole_rows, 2, None, "page_rank's degree table and link test both range over all out-edges (no filtering adaptor)"),
    (("C01", "C02", "C04", "C05"), rules8.index_arith, {"C01": 17, "C02": 12, "C04": 13, "C05": 12},
     lambda pid: {"C01": (lambda f, s: f.startswith("graph_impl::") and "stable_graph" not in f), "C02": (lambda f, s: "stable_graph" in f),
                  "C04": (lambda f, s: f.startswith("matrix_graph::") or "matrix_graph::" in f), "C05": (lambda f, s: "csr::" in f or "adj::" in f)}[pid],
     "no index value is built from an unchecked sum or product (index arithmetic stays in usize)"),
    (("C20",), rules8.dsatur_update_then_queue, 2, None, "dsatur re-queues a neighbour with its saturation read after the colour was inserted"),
    (("C15",), rules8.join_flag_names_edge, 2, None, "find_join's walk ends only at a vertex flagged with the current edge's id"),
    (("C01", "C02"), rules8.who_updates_edges, {"C01": 2, "C02": 2},
     lambda pid: (lambda f, s: "stable_graph" not in f or "«impl" in f and False) if pid == "C01" else (lambda f, s: True),
     "Graph / StableGraph are rebuilt with add_edge; update_edge is called only by its wrappers and condensation"),
    (("C05",), rules8.csr_count_reset, 1, None, "a Csr function that empties `column` also stores `edge_count`"),
    (("C06", "C05"), rules8.csr_edge_id_steps, 2, None, "Csr EdgeReferences::next stores its id counter for every element pulled (skipped mirror entries included)"),
    (("C09", "C07"), rules8.kosaraju_emits_walker_output, 3, None, "kosaraju_scc pushes only what Dfs / DfsPostOrder emit (or what a test-and-set guards)"),
    (("C14",), rules8.ordermap_both_directions, 3, None, "OrderMap's writers update both directions on every path to the return"),
    (("C15", "C07"), rules8.residual_arithmetic_is_directional, 2, None, "ford_fulkerson subtracts capacities / flows only where the traversal direction is known"),
    (("C18", "C04", "C06"), rules8.index_vs_count, 1, None, "no node index is tested against node_count() of MatrixGraph / StableGraph (growth loops excepted)"),
    (("C20", "C07"), rules8.position_vs_index, 20, None, "a Vec collected in enumeration order is not indexed by to_index without NodeCompactIndexable"),
    (("C05",), rules8.csr_sorted_size, 1, None, "from_sorted_edges sizes the graph over both endpoints of every edge"),
    (("C06", "C04"), rules8.adjacency_matrix_only_sets, 3, None, "adjacency_matrix impls only set bits"),
    (("C09", "C07"), rules8.tarjan_initial_state, 1, None, "every TarjanScc construction starts at index 1 / componentcount usize::MAX"),
    (("C10",), rules8.dijkstra_exits, 3, None, "dijkstra leaves its loop only on an empty heap or when the popped node is the goal"),
    (("C14",), rules8.acyclic_remove_presence, 2, None, "Acyclic::remove_node touches the order map only under a presence test of the node"),
    (("C15",), rules8.matching_never_unvisits, 10, None, "matching.rs never clears a visit mark"),
    (("C18",), rules8.dot_connector_source, 3, None, "Dot's TYPE / EDGE table index is is_directed() on every path"),
    (("C20",), rules8.dsatur_key_shape, 3, None, "dsatur's heap entries are scored (saturation, degree)"),
    (("C17",), rules8.reader_never_panics, 50, None, "the deserialising functions contain no explicit panic site (assert / debug_assert / unwrap / expect / panic) on a reachable path"),
]
for _pids, _fn, _floor, _predf, _txt in _R8:
    for _pid in _pids:
        _fl = _floor[_pid] if isinstance(_floor, dict) else _floor
        _pr = _predf(_pid) if _predf else (lambda f, s: True)
        _rule8 = sub(_cached("r8." + _fn.__name__, _fn), _pr, _fl)
        if _fn is rules8.reader_never_panics:
            _rule8 = _serde_only(_rule8)
        PROPS[_pid]["rules"].append(_rule8)
        if _pid != "C07":
            PROPS[_pid]["decides"] += "; " + _txt

WITNESSES = {
    "C01": ["frozen_no_add_node", "graph_nodes_private"],
    "C02": ["stable_not_compact", "stable_counts_private"],
    "C03": ["graphmap_private"],
    "C04": ["matrix_not_compact", "matrix_private"],
    "C05": ["csr_private"],
    "C06": ["stable_not_compact", "matrix_not_compact", "nodefiltered_no_count", "nodefiltered_not_compact", "edgefiltered_no_edgecount", "frozen_no_add_node"],
    "C07": ["stable_not_compact", "matrix_not_compact", "nodefiltered_not_compact", "floyd_warshall_stable", "connected_components_stable", "isomorphic_stable"],
    "C09": ["connected_components_stable"],
    "C11": ["floyd_warshall_stable"],
    "C14": ["acyclic_no_derefmut", "acyclic_fields_private", "acyclic_inner_mut_private"],
    "C19": ["unionfind_private", "unionfind_find_mut_needs_mut"],
}
for _pid, _w in WITNESSES.items():
    PROPS[_pid]["witness"] = _w
    PROPS[_pid]["decides"] += "; type-level witnesses (compile_fail + compiling twin): " + ", ".join(_w)

NOT_APPLICABLE = {
    "C13": "VF2 (sub)graph isomorphism is the result of a backtracking search over runtime adjacency; no clause of it is visible "
           "in the shape of the code. The only structural fact (state vectors count-sized under NodeCompactIndexable) is a DIM "
           "instance already decided under C07; claiming C13 through it would be a proxy.",
}
