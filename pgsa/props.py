"""Property -> rule instances (DESIGN section 4). Each entry is a function facts -> [RuleResult]."""
from . import dim

ALGO_FILES = {
    "C09": ("src/algo/mod.rs",),
    "C10": ("src/algo/dijkstra.rs", "src/algo/astar.rs", "src/algo/k_shortest_path.rs"),
    "C11": ("src/algo/bellman_ford.rs", "src/algo/spfa.rs", "src/algo/floyd_warshall.rs"),
    "C12": ("src/algo/min_spanning_tree.rs",),
    "C15": ("src/algo/matching.rs", "src/algo/ford_fulkerson.rs"),
    "C16": ("src/algo/articulation_points.rs", "src/algo/dominators.rs"),
    "C20": ("src/algo/maximal_cliques.rs", "src/algo/coloring.rs", "src/algo/feedback_arc_set.rs", "src/algo/tred.rs",
            "src/algo/simple_paths.rs", "src/algo/steiner_tree.rs", "src/algo/page_rank.rs"),
}

_cache = {}


def _dim_all(facts):
    k = ("dim", facts.source)
    if k not in _cache:
        _cache[k] = dim.run(facts)
    return _cache[k]


def _filter(rr, pred, floor=0):
    """restrict a whole-crate RuleResult to the sites of some files/functions"""
    from .report import RuleResult
    out = RuleResult(rr.rule, rr.clause)
    out.instances = [i for i in rr.instances if pred(i["func"])]
    out.violations = [v for v in rr.violations if pred(v.func)]
    out.notes = list(rr.notes)
    out.floor = floor
    return out


def _file_of_site(facts):
    """map normalised function path -> file"""
    m = {}
    for b in facts.bodies:
        m.setdefault(b.npath, b.file)
    return m


def dim_in_files(files, floor):
    def rule(facts):
        allr = _dim_all(facts)
        fm = _file_of_site(facts)

        def pred(fn):
            return any(fm.get(fn, "-").startswith(f) for f in files)
        outs = []
        tot = 0
        for k in ("DIM-HINT", "DIM-CARD", "DIM-RAW"):
            r = _filter(allr[k], pred)
            tot += len(r.instances)
            outs.append(r)
        outs[1].floor = floor
        outs[1].floor_what = "length-sink sites"
        return outs
    return rule


def dim_stride(facts):
    return [dim.stride(facts)]


C07_FILES = ("src/algo/", "src/visit/traversal.rs", "src/visit/dfsvisit.rs", "src/traits_graph.rs",
             "src/graph_impl/", "src/matrix_graph.rs", "src/csr.rs", "src/adj.rs", "src/graphmap.rs", "src/acyclic")

PROPS = {
    "C07": {
        "rules": [dim_in_files(C07_FILES, 40), dim_stride],
        "decides": "count/bound/hint/raw-id confusion clause: no container that is indexed by graph indices is sized by "
                   "node_count()/edge_count()/size_hint() where the graph may have vacant indices, no raw NodeId::index() "
                   "indexes a bound-sized container in generic code, and adjacency bit matrices use one stride",
        "not_decided": "equality/optimality of algorithm results across encodings; termination",
    },
}
for pid, files in ALGO_FILES.items():
    PROPS[pid] = {
        "rules": [dim_in_files(files, {"C09": 3, "C10": 1, "C11": 8, "C12": 1, "C15": 4, "C16": 1, "C20": 4}[pid])],
        "decides": "sizing clause only: scratch containers of these algorithms are sized by the index bound "
                   "(or by the count only where NodeCompactIndexable is required)",
        "not_decided": "that the algorithm's result meets its graph-theoretic specification",
    }

NOT_APPLICABLE = {
    "C13": "VF2 (sub)graph isomorphism is the result of a backtracking search over runtime adjacency; no clause of it is visible "
           "in the shape of the code. The only structural fact (state vectors count-sized under NodeCompactIndexable) is a DIM "
           "instance already decided under C07; claiming C13 through it would be a proxy.",
}
