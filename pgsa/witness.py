"""Type-level witnesses (DESIGN 2.4): compile_fail doctests with compiling twins, run with
`cargo +nightly test --doc` (error codes are honoured on nightly). Nothing is executed: compile_fail
tests are compile-only and twins are `no_run`. Results are cached by the hash of /repo's source tree."""
import fcntl
import json
import os
import re
import shutil
import subprocess
import tempfile
import time

from . import extract
from .report import RuleResult, Violation

VERIF = extract.VERIF


def _run_all():
    key = extract.tree_hash("witness")
    os.makedirs(extract.CACHE, exist_ok=True)
    out = os.path.join(extract.CACHE, "witness-%s.json" % key)
    if os.path.exists(out):
        with open(out) as fh:
            return json.load(fh), True
    lock = open(os.path.join(extract.CACHE, "lock-witness"), "w")
    fcntl.flock(lock, fcntl.LOCK_EX)
    try:
        if os.path.exists(out):
            with open(out) as fh:
                return json.load(fh), True
        t0 = time.time()
        tdir = tempfile.mkdtemp(prefix="pgsa-witness-")
        try:
            os.makedirs(os.path.join(tdir, "src"))
            shutil.copy(os.path.join(VERIF, "witness", "src", "lib.rs"), os.path.join(tdir, "src", "lib.rs"))
            shutil.copy(os.path.join(extract.REPO, "Cargo.lock"), os.path.join(tdir, "Cargo.lock"))
            with open(os.path.join(tdir, "Cargo.toml"), "w") as fh:
                fh.write('[package]\nname = "pgsa-witness"\nversion = "0.0.0"\nedition = "2021"\npublish = false\n\n'
                         '[dependencies]\npetgraph = { path = "%s", features = ["serde-1"] }\n\n[workspace]\n' % extract.REPO)
            with open(os.path.join(tdir, "rust-toolchain.toml"), "w") as fh:
                fh.write('[toolchain]\nchannel = "nightly"\n')
            env = dict(os.environ, CARGO_NET_OFFLINE="true", CARGO_TARGET_DIR=os.path.join(tdir, "target"), RUSTFLAGS="-Awarnings",
                       RUSTDOCFLAGS="-Awarnings")
            env.pop("RUSTC_WORKSPACE_WRAPPER", None)
            p = subprocess.run(["cargo", "+nightly", "test", "--doc", "--offline", "--", "--test-threads", "16"], cwd=tdir, env=env,
                               stdout=subprocess.PIPE, stderr=subprocess.STDOUT, text=True)
            res = {}
            for m in re.finditer(r"^test src/lib\.rs - (\w+) \(line \d+\)(?: - compile(?: fail)?)? \.\.\. (\w+)", p.stdout, re.M):
                res[m.group(1)] = m.group(2)
            data = {"results": res, "exit": p.returncode, "wall_s": round(time.time() - t0, 1),
                    "tail": p.stdout[-3000:] if (p.returncode != 0 or not res) else ""}
            if res:
                with open(out + ".tmp", "w") as fh:
                    json.dump(data, fh)
                os.replace(out + ".tmp", out)
            return data, False
        finally:
            shutil.rmtree(tdir, ignore_errors=True)
    finally:
        fcntl.flock(lock, fcntl.LOCK_UN)
        lock.close()


def declared():
    """witness ids declared in witness/src/lib.rs with their doc line"""
    src = open(os.path.join(VERIF, "witness", "src", "lib.rs"), encoding="utf-8").read()
    out = {}
    for m in re.finditer(r"/// ([^\n]*)\n/// ```compile_fail,(E\d+)\n(?:///[^\n]*\n)+?pub fn w_(\w+)\(\)", src):
        out[m.group(3)] = (m.group(1), m.group(2))
    return out


def run(ids, pid):
    r = RuleResult("WITNESS", "negative type-level facts hold: each compile_fail witness fails to compile with its error code and its twin, "
                              "which differs in the offending line only, compiles")
    data, cached = _run_all()
    res = data["results"]
    decl = declared()
    for wid in ids:
        doc, code = decl.get(wid, ("?", "?"))
        w = res.get("w_" + wid)
        t = res.get("t_" + wid)
        fn = "witness::" + wid
        if w == "ok" and t == "ok":
            r.ok(fn, code, "%s - witness fails to compile with %s, twin compiles" % (doc, code))
        elif w is None or t is None:
            r.bad(Violation("WITNESS", fn, "missing", "witness/src/lib.rs", 0,
                            "witness or twin did not run (witness=%s twin=%s): the doctest build failed - fail closed. %s" % (w, t, data.get("tail", "")[-600:])))
        elif t != "ok":
            r.bad(Violation("WITNESS", fn, "twin", "witness/src/lib.rs", 0,
                            "the compiling twin of `%s` no longer compiles: the witness is no longer meaningful (API moved?) - fail closed" % doc))
        else:
            r.bad(Violation("WITNESS", fn, code, "witness/src/lib.rs", 0,
                            "NEGATIVE FACT LOST: `%s` - the witness now compiles (or fails with a different error than %s)" % (doc, code)))
    r.notes.append("doctests run: %d, cache hit: %s, wall %.1fs" % (len(res), cached, data.get("wall_s", 0)))
    return r
