"""Structural clauses added after the eighth round (g) of independently seeded changes (same discipline as rules5/6/7)."""
from .core import op_place, op_local, callee_name, last_seg, norm_path, walk_expr
from .report import RuleResult, Violation
from .guard import Obl, dom_atoms, named_roots, reach, return_some_sites, deep_leaves, roots_named, edge_atom, derived_locals
from .tag import leaves, strip_casts

FN_TRAITS = ("core::ops::FnMut", "core::ops::Fn", "core::ops::FnOnce")


def holds_lt(atoms):
    """(lo, hi) pairs for which lo < hi holds on the dominating edges (canonical atoms are Lt / Le / Eq / Ne)"""
    for (e, truth, src) in atoms:
        if not (isinstance(e, tuple) and e[0] == "bin"):
            continue
        if e[1] == "Lt" and truth is True:
            yield e[2], e[3], src
        elif e[1] == "Le" and truth is False:
            yield e[3], e[2], src


# ------------------------------------------------------------------------------------------------ C01 (index kinds)
def index_twice_kinds(facts):
    o = Obl("GUARD-KINDLEN", "Graph::index_twice_mut(i: T, j: U) takes a node and an edge index in either order: a length that was selected by X::is_node_index() "
                             "(nodes.len() or edges.len()) may only bound the index whose type is X - the node count says nothing about an edge index")
    for b in o.need_fn(facts, "graph_impl::Graph::index_twice_mut"):
        defs = b.defs()
        bad = []
        n = 0
        for i, bl in enumerate(b.blocks):
            t = bl["term"]
            if t["k"] != "switch" or bl["cleanup"]:
                continue
            e = b.expr(t["d"], 10, named_leaf=True)
            if not (isinstance(e, tuple) and e[0] == "bin" and e[1] in ("Lt", "Le", "Gt", "Ge")):
                continue
            for side, other in ((e[2], e[3]), (e[3], e[2])):
                ix = [s for s in walk_expr(side) if isinstance(s, tuple) and s[0] == "call" and norm_path(s[1]["path"]).endswith("GraphIndex::index")]
                if not ix:
                    continue
                kind = ix[0][1].get("self", "")
                sel = set()
                for lf in leaves(other):
                    if lf[0] != "local" or len(defs.get(lf[1], [])) < 2:
                        continue
                    for d in defs[lf[1]]:
                        dblk = d[1] if isinstance(d, tuple) else d
                        for (a, truth, src) in dom_atoms(b, dblk, named_leaf=True):
                            for s in walk_expr(a):
                                if isinstance(s, tuple) and s[0] == "call" and norm_path(s[1]["path"]).endswith("GraphIndex::is_node_index"):
                                    sel.add(s[1].get("self", ""))
                if sel:
                    n += 1
                    if kind not in sel:
                        bad.append((t.get("line", b.line), kind, sorted(sel)))
        o.check(b, "length-of-own-kind", bad[0][0] if bad else b.line, not bad,
                "%d kind-selected bound(s), each bounds the index of the selecting type" % n,
                "an index of type %s is bounded by a length that was selected by %s::is_node_index(): index_twice_mut(node, edge) now compares the node index "
                "with the edge count (or the reverse) and panics on a valid call whenever there are more nodes than edges" % (bad[0][1].split("/")[0], bad[0][2][0].split("/")[0]) if bad else "")
    o.r.floor = 1
    return o.r


# ------------------------------------------------------------------------------------------------ C04 (checked position)
def matrix_checked_position(facts):
    o = Obl("GUARD-EDGEPOS", "MatrixGraph::to_edge_position answers Some(position) only when BOTH node indices are below node_capacity: in the directed layout "
                             "(row * width + column) a column at or past the capacity yields a position inside the vector that belongs to the next row, so a test "
                             "on the linear position alone cannot tell a valid cell from an aliased one")
    for b in o.need_fn(facts, "matrix_graph::MatrixGraph::to_edge_position"):
        n = 0
        for i, j, st in return_some_sites(b):
            n += 1
            bounded = set()
            for lo, hi, src in holds_lt(dom_atoms(b, i, named_leaf=True)):
                if ("field", "node_capacity") not in deep_leaves(b, hi):
                    continue
                if any(isinstance(s, tuple) and s[0] == "call" and last_seg(s[1]["path"]) in ("to_edge_position_unchecked", "to_linearized_matrix_position",
                                                                                             "to_flat_square_matrix_position", "to_lower_triangular_matrix_position")
                       for s in walk_expr(lo)):
                    continue
                bounded |= {x[1] for x in deep_leaves(b, lo) if x[0] == "arg"}
            o.check(b, "some#%d-both-bounded" % n, st["line"], {2, 3} <= bounded, "both node indices are tested against node_capacity",
                    "Some(position) is returned without both node indices having been tested against node_capacity (bounded parameters: %s): on a directed "
                    "MatrixGraph has_edge(a, b) with b at or past the capacity (an isolated later node) reads the cell of (a + 1, b - capacity) - an invented edge, "
                    "and remove_edge / remove_node delete somebody else's" % sorted(bounded))
        o.check(b, "some-sites", b.line, n >= 1, "%d Some site(s)" % n, "to_edge_position has no Some(..) return")
    o.r.floor = 2
    return o.r


# ------------------------------------------------------------------------------------------------ C07 / C09 (component numbering)
def tarjan_component_count(facts):
    r = RuleResult("PAIR-COMPONENT", "TarjanScc numbers components downwards from usize::MAX: every emission of a component (call of the callback) is followed, before the "
                                     "next emission and before the function returns, by a store to `componentcount` - otherwise two components share a number and "
                                     "node_component_index / condensation merge them")
    n = 0
    for b in facts.bodies:
        if b.file != "src/algo/mod.rs" or b.kind != "AssocFn" or "TarjanScc" not in b.npath:
            continue
        sites = [i for i, t in b.calls() if t["f"].get("trait") in FN_TRAITS]
        if not sites:
            continue
        stores = {i for i, j, st in b.stmts() if any(isinstance(x, dict) and x.get("n") == "componentcount" for x in st["lhs"]["p"])}
        succ = b.cfg()[0]
        rets = {i for i, bl in enumerate(b.blocks) if bl["term"]["k"] == "return"}
        for k, i in enumerate(sites):
            n += 1
            after = set()
            for s in succ[i]:
                after |= reach(b, s, avoid=stores)
            esc = (after & rets) | (after & set(sites))
            if i in stores:
                esc = set()
            site = "emit#%d" % (k + 1)
            if esc:
                r.bad(Violation("PAIR-COMPONENT", b.npath, site, b.file, b.blocks[i]["term"]["line"],
                                "a component is handed to the callback and the function can return (or emit the next component) without a store to componentcount: the "
                                "next component gets the same number, so TarjanScc::node_component_index reports two different components as one (it depends on the "
                                "node order whether that happens)"))
            else:
                r.ok(b.npath, site, "componentcount is stored on every path after the emission")
    r.floor = 1
    r.floor_what = "component emissions in TarjanScc"
    return r


# ------------------------------------------------------------------------------------------------ C15 (accessors agree)
def matching_is_empty(facts):
    o = Obl("FLOW-MATCHEMPTY", "Matching::is_empty is `number of matched edges == 0`: its result flows from n_edges (directly or through len()), never from the `mate` "
                               "vector, which has one slot per node index whether matched or not")
    for b in o.need_fn(facts, "algo::matching::Matching::is_empty"):
        e = b.local_expr(0, 12)
        lv = deep_leaves(b, e)
        from_len = ("field", "n_edges") in lv or any(isinstance(s, tuple) and s[0] == "call" and norm_path(s[1]["path"]).endswith("Matching::len") for s in walk_expr(e))
        for x in list(lv):
            if x[0] == "local":
                for s in walk_expr(b.local_expr(x[1], 12)):
                    if isinstance(s, tuple) and s[0] == "call" and norm_path(s[1]["path"]).endswith("Matching::len"):
                        from_len = True
        reads_mate = ("field", "mate") in lv or any(isinstance(s, tuple) and s[0] == "place" and any(isinstance(q, tuple) and q[0] == "f" and q[2] == "mate" for q in s[2])
                                                    for s in walk_expr(e))
        if not reads_mate:
            for _, _, st in b.stmts():
                pls = [st["rv"]["pl"]] if st["rv"].get("pl") else []
                pls += [q for q in (op_place(o_) for o_ in st["rv"].get("o", [])) if q]
                if any(isinstance(x, dict) and x.get("n") == "mate" for pl in pls for x in pl["p"]):
                    reads_mate = True
        o.check(b, "derives-from-n_edges", b.line, from_len and not reads_mate, "is_empty is computed from the edge count",
                "is_empty %s: for a graph with nodes but no matched edge (edgeless, only self-loops) len() is 0 and is_empty() is false" %
                ("reads the mate vector" if reads_mate else "does not derive from n_edges / len()"))
    o.r.floor = 1
    return o.r


# ------------------------------------------------------------------------------------------------ C16 / C11 (fixpoint flag covers every change)
def fixpoint_store_flagged(facts):
    r = RuleResult("FLOW-FIXSTORE", "fixpoint loops (simple_fast's `changed`, bellman_ford's `did_update`): inside the sweep every store into an indexed table happens under "
                                    "exactly the conditions under which the flag is set - a table element that can change without the flag being raised lets the "
                                    "iteration stop before the fixpoint")
    n = 0
    for b in facts.bodies:
        if not b.file.startswith("src/algo") or b.kind not in ("Fn", "AssocFn"):
            continue
        flags = {}
        for i, j, st in b.stmts():
            lhs = st["lhs"]
            if lhs["p"] or b.lty(lhs["l"]) != "bool" or not b.lname(lhs["l"]):
                continue
            flags.setdefault(lhs["l"], []).append((i, st))
        for l, sts in flags.items():
            consts = [(i, st) for (i, st) in sts if st["rv"]["k"] == "use" and "const" in st["rv"]["o"][0]]
            falses = [i for (i, st) in consts if st["rv"]["o"][0]["const"] in ("0", "false")]
            trues = [i for (i, st) in consts if st["rv"]["o"][0]["const"] in ("1", "true")]
            # `flag |= <comparison>`: the flag is raised exactly when the comparison holds; (block, leaves of the comparison)
            accs = []
            for (i, st) in sts:
                rv = st["rv"]
                if rv["k"] == "bin" and rv["op"] == "BitOr" and any(op_local(o_) == l for o_ in rv["o"]):
                    other = [o_ for o_ in rv["o"] if op_local(o_) != l]
                    if other:
                        accs.append((i, deep_leaves(b, b.expr(other[0], 10, named_leaf=True))))
            if not falses or not (trues or accs):
                continue
            succ = b.cfg()[0]
            loop = set()
            for fb in falses:
                fwd = set()
                for s in succ[fb]:
                    fwd |= reach(b, s)
                if fb in fwd:
                    loop |= {x for x in fwd if fb in reach(b, x)}
            tested = any(bl["term"]["k"] == "switch" and (op_local(bl["term"]["d"]) == l or ("local", l) in leaves(b.expr(bl["term"]["d"], 10)) or
                                                          ("local", l) in leaves(b.expr_at(bl["term"]["d"], bi_, None, 10)))
                         for bi_, bl in enumerate(b.blocks) if not bl["cleanup"])
            trues = [t_ for t_ in trues if t_ in loop]
            accs = [(i, lv) for (i, lv) in accs if i in loop]
            if not loop or not tested or not (trues or accs):
                continue
            # conditional edges inside the sweep that dominate a block
            def conds(blk):
                return frozenset((src, tgt) for (src, tgt, label) in b.dominating_edges(blk) if src in loop and not isinstance(label, tuple))
            set_conds = [conds(t_) for t_ in trues]
            # tables: places reached through Index/IndexMut or a direct index projection
            k = 0
            for i, j, st in b.stmts():
                if i not in loop:
                    continue
                lhs = st["lhs"]
                indexed = any(isinstance(x, dict) and "ix" in x for x in lhs["p"])
                if not indexed and lhs["p"] and lhs["p"][0] == "*":
                    base = b.local_expr(lhs["l"], 6)
                    indexed = any(isinstance(s, tuple) and s[0] == "call" and last_seg(s[1]["path"]) == "index_mut" for s in walk_expr(base))
                if not indexed:
                    continue
                k += 1
                n += 1
                c = conds(i)
                # a store under MORE conditions than the flag is still flagged; under FEWER (or different) conditions it can change unflagged
                ok = any(sc <= c for sc in set_conds)
                site = "%s:table-store#%d" % (b.lname(l), k)
                if not ok and accs:
                    # unconditional store next to `flag |= new != table[i]`: the comparison names the table that is stored into
                    troots = {x for x in named_roots(b, {"copy": {"l": lhs["l"], "p": []}}) if x[0] in ("local", "arg")}
                    for (ai, lv) in accs:
                        if conds(ai) <= c and (troots & {x for x in lv if x[0] in ("local", "arg")}):
                            ok = True
                if ok:
                    r.ok(b.npath, site, "the store is dominated by the conditions of a `%s = true`" % b.lname(l))
                else:
                    r.bad(Violation("FLOW-FIXSTORE", b.npath, site, b.file, st["line"],
                                    "a table element is stored inside the sweep under conditions that do not imply `%s = true` (the flag is only raised under a "
                                    "narrower test): the table can still change in a sweep after which the loop stops - simple_fast then returns a dominator tree that "
                                    "is not the fixpoint (wrong on irreducible graphs that need a third sweep)" % b.lname(l)))
    r.floor = 2
    r.floor_what = "table stores inside fixpoint sweeps"
    return r


# ------------------------------------------------------------------------------------------------ C20 (page_rank sees every out-edge)
FILTERING = ("filter", "filter_map", "skip", "skip_while", "take", "take_while", "step_by", "dedup", "dedup_by", "dedup_by_key", "flat_map", "scan", "map_while")


def page_rank_whole_rows(facts):
    o = Obl("FLOW-PRDEG", "page_rank: the out-degree table and the `w links to v` test both range over ALL out-edges of w (graph.edges(w)); no filtering adaptor sits "
                          "between edges() and its consumer - if the two sites disagree about which edges count, a node's rank is divided by a degree of 0")
    for b0 in o.need_fn(facts, "algo::page_rank::page_rank"):
        n = 0
        for b in facts.with_closures(b0):
            srcs = [(i, t) for i, t in b.calls() if last_seg(t["f"]["path"]) == "edges" and t["f"].get("crate") == "petgraph"]
            if not srcs:
                continue
            for i, t in srcs:
                n += 1
                # forward: locals that hold (adaptors of) this iterator
                held = {t["dest"]["l"]}
                bad = []
                changed = True
                while changed:
                    changed = False
                    for bi, bj, st in b.stmts():
                        rv = st["rv"]
                        ops = [op_local(x) for x in rv.get("o", [])] + ([rv["pl"]["l"]] if rv.get("pl") else [])
                        if any(x in held for x in ops) and st["lhs"]["l"] not in held and not st["lhs"]["p"]:
                            held.add(st["lhs"]["l"])
                            changed = True
                    for ci, ct in b.calls():
                        if not ct["args"] or op_local(ct["args"][0]) not in held:
                            continue
                        nm = last_seg(ct["f"]["path"])
                        if nm in FILTERING and (nm, ct["line"]) not in bad:
                            bad.append((nm, ct["line"]))
                        if ct["dest"]["l"] not in held and nm in FILTERING + ("map", "into_iter", "by_ref", "iter", "enumerate", "peekable", "fuse", "rev", "cloned", "copied", "inspect"):
                            held.add(ct["dest"]["l"])
                            changed = True
                o.check(b, "edges#%d-unfiltered" % n, t["line"], not bad, "the out-edge iterator reaches its consumer unfiltered",
                        "the out-edges of a node pass through %s before they are consumed: the degree table and the link test no longer count the same edges - for a "
                        "node whose only out-edges are the filtered ones (e.g. only self-loops) rank / out_degree divides by zero and every rank becomes NaN" % bad[:2])
        o.check(b0, "edges-sites", b0.line, n >= 2, "%d edges() site(s)" % n, "page_rank no longer iterates graph.edges(..) at two sites (degree table and link test)")
    o.r.floor = 2
    return o.r


# ------------------------------------------------------------------------------------------------ C01-C05 (index arithmetic stays in usize)
IX_FILES = ("src/csr.rs", "src/graph_impl/", "src/matrix_graph.rs", "src/adj.rs", "src/graphmap.rs")
IX_NEW = ("IndexType::new", "NodeIndex::new", "EdgeIndex::new")
GROWING = ("Add", "AddWithOverflow", "AddUnchecked", "Mul", "MulWithOverflow", "MulUnchecked", "Shl", "ShlUnchecked")


def index_arith(facts):
    r = RuleResult("TYPE-IXARITH", "graph storage (csr, graph_impl, matrix_graph, adj, graphmap): an index value (IndexType::new, NodeIndex::new, EdgeIndex::new) is never built "
                                   "from the result of an addition or multiplication unless a test against the index type's maximum dominates it - `Ix::new(x + 1)` is "
                                   "`(x + 1) as u8` for a u8 index and wraps to 0 at the type's capacity; index arithmetic stays in usize")
    n = 0
    for b in facts.bodies:
        if not b.file.startswith(IX_FILES) or b.kind not in ("Fn", "AssocFn", "Closure"):
            continue
        for i, t in b.calls():
            np_ = norm_path(t["f"]["path"])
            if not np_.endswith(IX_NEW) or not t["args"]:
                continue
            n += 1
            e = b.expr(t["args"][0], 8)
            grow = [s for s in walk_expr(e) if isinstance(s, tuple) and s[0] == "bin" and s[1] in GROWING]
            site = "new#%d" % len([x for x in r.instances if x["func"] == b.npath])
            if not grow:
                r.ok(b.npath, site, "index built from a length / parameter / constant")
                continue
            limited = False
            for (a, truth, src) in dom_atoms(b, i):
                if any(isinstance(s, tuple) and s[0] == "call" and norm_path(s[1]["path"]).endswith(("IndexType::max", "NodeIndex::end", "EdgeIndex::end")) for s in walk_expr(a)):
                    limited = True
            if limited:
                r.ok(b.npath, site, "sum is tested against the index type's maximum first")
            else:
                r.bad(Violation("TYPE-IXARITH", b.npath, "new-of-sum", b.file, t["line"],
                                "an index is built from the result of %s without a dominating test against the index type's maximum: for a u8 / u16 index the value "
                                "wraps at the type's capacity (255 + 1 = 0), so a comparison against it accepts what it should reject (Csr::from_sorted_edges then takes "
                                "unsorted / duplicate targets after the highest node)" % grow[0][1]))
    r.floor = 30
    r.floor_what = "index construction sites"
    return r


# ------------------------------------------------------------------------------------------------ C20 (dsatur: update before re-queue)
def dsatur_update_then_queue(facts):
    o = Obl("FLOW-SATURATION", "dsatur_coloring: the saturation a neighbour is re-queued with (adj_color.len()) is read AFTER the new colour was inserted into that "
                               "neighbour's colour set - the insert dominates the len() that feeds the heap push; a stale saturation makes DSatur pick nodes in the wrong order")
    for b in o.need_fn(facts, "algo::coloring::dsatur_coloring"):
        n = 0
        pushes = [(i, t) for i, t in b.calls() if last_seg(t["f"]["path"]) == "push" and "BinaryHeap" in t["f"].get("self", "")]
        inserts = [(i, t) for i, t in b.calls() if last_seg(t["f"]["path"]) == "insert" and "HashSet" in t["f"].get("self", "")]
        for pi, pt in pushes:
            if len(pt["args"]) < 2:
                continue
            e = b.expr(pt["args"][1], 12)
            for s in walk_expr(e):
                if not (isinstance(s, tuple) and s[0] == "call" and last_seg(s[1]["path"]) == "len" and "HashSet" in s[1].get("self", "")):
                    continue
                n += 1
                lblk = s[3]
                recv = named_roots(b, b.blocks[lblk]["term"]["args"][0])
                ok = any(ii != lblk and b.dominates(ii, lblk) and (named_roots(b, it["args"][0]) & recv) and lblk in reach(b, ii) and
                         any(h in reach(b, lblk) for h in [ii]) for ii, it in inserts)
                o.check(b, "saturation#%d" % n, b.blocks[lblk]["term"]["line"], ok, "the colour is inserted before the set's size is read for the re-queue",
                        "the size of a neighbour's colour set is read for the re-queue without the insertion of the new colour dominating it: the neighbour is queued "
                        "with its OLD saturation, the heap order is no longer DSatur's, and more colours than necessary are used on some graphs")
        o.check(b, "saturation-sites", b.line, n >= 1, "%d re-queue site(s)" % n, "no heap push keyed by a colour set's size found in dsatur_coloring")
    o.r.floor = 2
    return o.r


# ------------------------------------------------------------------------------------------------ C15 (the blossom flag names its edge)
def join_flag_names_edge(facts):
    o = Obl("FLOW-FLAGID", "matching::find_join: the walk stops at the first inner vertex that carries the flag OF THE CURRENT EDGE - the loop exit is dominated by a test "
                           "that compares the vertex's label with this edge's id; a flag left behind by an earlier find_join (nested blossoms) must not end the walk")
    for b in o.need_fn(facts, "algo::matching::find_join"):
        joins = [l for l in range(len(b.locals)) if b.lname(l) == "join"]
        defs = b.defs()
        n = 0
        for l in joins:
            for d in defs.get(l, []):
                blk = d[1] if isinstance(d, tuple) else d
                n += 1
                ok = False
                why = "no dominating test mentions the edge id"
                for (a, truth, src) in dom_atoms(b, blk):
                    ids = [s for s in walk_expr(a) if isinstance(s, tuple) and s[0] == "call" and norm_path(s[1]["path"]).endswith("EdgeRef::id")]
                    if not ids:
                        continue
                    helper = [s for s in walk_expr(a) if isinstance(s, tuple) and s[0] == "call" and s[1].get("crate") == "petgraph" and
                              not norm_path(s[1]["path"]).endswith("EdgeRef::id") and "Label" in norm_path(s[1]["path"])]
                    if not helper:
                        ok = True
                        continue
                    for h in helper:
                        hb = facts.find(norm_path(h[1]["path"]))
                        for cb in hb:
                            uses = False
                            for bi, bl in enumerate(cb.blocks):
                                t = bl["term"]
                                if t["k"] == "switch":
                                    ex = cb.expr(t["d"], 10)
                                    if any(x == ("arg", 2) for x in leaves(ex)):
                                        uses = True
                                if t["k"] == "call" and last_seg(t["f"]["path"]) in ("eq", "ne") and any(("arg", 2) in leaves(cb.expr(a_, 8)) for a_ in t["args"]):
                                    uses = True
                            if uses:
                                ok = True
                            else:
                                why = "%s does not compare its label with the edge it is given" % cb.npath
                o.check(b, "join-exit#%d" % n, b.blocks[blk]["term"].get("line", b.line), ok, "the exit is taken only for the flag of this edge",
                        "the join search ends at a flagged vertex without the flag having been compared with the current edge's id (%s): a flag of an earlier "
                        "find_join ends the walk at the wrong vertex - nested blossoms are contracted wrongly and the matching returned is not maximum" % why)
        o.check(b, "join-exits", b.line, n >= 1, "%d exit(s)" % n, "the `join` result of the flag walk was not found in find_join")
    o.r.floor = 2
    return o.r


# ------------------------------------------------------------------------------------------------ C17 (the reader never panics on its input)
READER_FILES = ("src/graph_impl/serialization.rs", "src/graph_impl/stable_graph/serialization.rs", "src/serde_utils.rs")
PANIC_FNS = ("core::panicking::panic", "core::panicking::panic_fmt", "core::panicking::assert_failed", "core::panicking::panic_display", "core::panicking::panic_explicit",
             "core::panicking::unreachable_display", "core::result::unwrap_failed", "core::option::unwrap_failed", "core::option::expect_failed",
             "core::panicking::panic_str", "std::rt::begin_panic", "core::panicking::panic_nounwind")


def _is_reader(b):
    nm = b.npath.split("::{closure")[0]
    last = last_seg(nm)
    if b.file in READER_FILES:
        return last in ("from_deserialized", "deserialize", "visit_seq", "visit_map", "visit_newtype_struct") or last.startswith(("deser_", "invalid_"))
    if b.file in ("src/graph_impl/mod.rs", "src/graph_impl/stable_graph/mod.rs"):
        return last == "link_edges"
    if b.file == "src/graphmap.rs":
        return last == "deserialize"
    return False


def reader_never_panics(facts):
    r = RuleResult("WIRE-NOPANIC", "the deserialising side (from_deserialized, Deserialize::deserialize, the sequence visitors, deser_* readers, link_edges) contains no explicit "
                                   "panic site - assert!/debug_assert!/unwrap/expect/panic! - on a reachable path: everything it computes derives from untrusted input, so a "
                                   "violated expectation has to be an Err (bounds- and overflow-checks of indexing/arithmetic are decided by WIRE-VALIDATE / TAG-W, not here)")
    n = 0
    for b in facts.bodies:
        if b.kind not in ("Fn", "AssocFn", "Closure") or not _is_reader(b):
            continue
        n += 1
        succ, _, rch = b.cfg()
        bad = []
        for i, t in b.calls():
            if i not in rch:
                continue
            np_ = norm_path(t["f"]["path"])
            if np_ in PANIC_FNS or np_.startswith("core::panicking::"):
                bad.append((t["line"], last_seg(np_), t.get("mac", "")))
            elif last_seg(np_) in ("unwrap", "expect", "unwrap_unchecked") and np_.startswith(("core::option::Option", "core::result::Result")):
                bad.append((t["line"], last_seg(np_), ""))
        if bad:
            for (ln, what, mac) in bad:
                r.bad(Violation("WIRE-NOPANIC", b.npath, "panic-site:%s" % what, b.file, ln,
                                "%s (%s) is reachable in a function that processes deserialised input: malformed input (a hole position that the compact node "
                                "list cannot reach, a length that disagrees) panics instead of returning an error" % (what, mac or "explicit call")))
        else:
            r.ok(b.npath, "no-panic-site", "no explicit panic call on a reachable path")
    r.floor = 50
    r.floor_what = "reader functions"
    return r


# ------------------------------------------------------------------------------------------------ round 9 (h)
# C01 / C02: a multigraph is rebuilt by appending
def who_updates_edges(facts):
    r = RuleResult("WHO-UPDATE", "Graph / StableGraph are multigraphs: their find-or-overwrite entry points (update_edge / try_update_edge) are called only by the wrappers of "
                                 "the same name and by condensation (GUARD-CONDENSE); conversions, map / filter_map, from_edges, extend_with_edges and the serde readers "
                                 "rebuild a graph with add_edge, which appends - update_edge would merge parallel edges and shift every later edge index")
    n = 0
    for b in facts.bodies:
        if not b.file.startswith("src/") or "quickcheck" in b.file:
            continue
        for i, t in b.calls():
            f = t["f"]
            if last_seg(f["path"]) not in ("update_edge", "try_update_edge") or f.get("crate") != "petgraph":
                continue
            if f.get("selfhead", "") not in ("adt:graph_impl::Graph", "adt:graph_impl::stable_graph::StableGraph"):
                continue
            n += 1
            owner = b.npath.split("::{closure")[0]
            ok = last_seg(owner) in ("update_edge", "try_update_edge") or owner == "algo::condensation"
            if ok:
                r.ok(b.npath, "update#%d" % n, "wrapper of the same name / condensation")
            else:
                r.bad(Violation("WHO-UPDATE", b.npath, "update_edge-call", b.file, t["line"],
                                "%s calls %s on a Graph / StableGraph: parallel edges of the source are merged into one (the later weight overwrites the earlier), the "
                                "edge count drops and all later edges get lower indices" % (owner, last_seg(f["path"]))))
    r.floor = 4
    r.floor_what = "update_edge call sites on Graph / StableGraph"
    return r


# C05: Csr's separate undirected edge count follows the column array
def csr_count_reset(facts):
    r = RuleResult("PAIR-CSRCOUNT", "Csr keeps `edge_count` next to `column` (an undirected edge occupies two column entries and is counted once): a function that empties or "
                                    "truncates `column` also stores `edge_count`")
    n = 0
    for b in facts.bodies:
        if b.file != "src/csr.rs" or b.kind not in ("Fn", "AssocFn"):
            continue
        clears = []
        for i, t in b.calls():
            if last_seg(t["f"]["path"]) in ("clear", "truncate", "drain") and t["args"] and norm_path(t["f"]["path"]).startswith("alloc::vec::Vec"):
                e = b.expr(t["args"][0], 6, named_leaf=True)
                if ("field", "column") in leaves(e) and not any(x[0] == "field" and x[1] not in ("column",) for x in leaves(e)):
                    clears.append((i, t))
        for i, j, st in b.stmts():
            lhs = st["lhs"]
            fs = [x for x in lhs["p"] if isinstance(x, dict) and "f" in x]
            if fs and fs[-1].get("n") == "column" and fs[-1].get("a") == "csr::Csr" and lhs["p"].index(fs[-1]) == len(lhs["p"]) - 1:
                clears.append((i, st))
        if not clears:
            continue
        n += 1
        stores = [i for i, j, st in b.stmts() if any(isinstance(x, dict) and x.get("n") == "edge_count" and x.get("a") == "csr::Csr" for x in st["lhs"]["p"])]
        whole = [i for i, j, st in b.stmts() if st["rv"]["k"] == "agg" and st["rv"].get("name") == "csr::Csr"]
        if stores or whole:
            r.ok(b.npath, "column-reset", "edge_count is stored in the same function")
        else:
            r.bad(Violation("PAIR-CSRCOUNT", b.npath, "column-reset", b.file, clears[0][1].get("line", b.line),
                            "`column` is emptied but `edge_count` is not stored: on an undirected Csr edge_count() keeps reporting the old number after clear_edges() "
                            "and edges added later are counted on top of it"))
    r.floor = 1
    r.floor_what = "functions that reset Csr.column"
    return r


# C06 / C05: the edge id of Csr's whole-graph iterator is the position in `column`
def csr_edge_id_steps(facts):
    o = Obl("PAIR-CSRINDEX", "Csr's EdgeReferences::next: the edge id is the position in the column array, so the id counter is stored once for EVERY element pulled from the "
                             "row iterator - also for the mirrored entries of an undirected edge that are skipped")
    for b in o.need_fn(facts, "«csr::EdgeReferences as core::iter::Iterator»::next"):
        stores = {i for i, j, st in b.stmts() if any(isinstance(x, dict) and x.get("n") == "index" and x.get("a") == "csr::EdgeReferences" for x in st["lhs"]["p"])}
        succ = b.cfg()[0]
        rets = {i for i, bl in enumerate(b.blocks) if bl["term"]["k"] == "return" and not bl["cleanup"]}
        n = 0
        for h, t in b.calls():
            if last_seg(t["f"]["path"]) != "next" or not t["args"]:
                continue
            e = b.expr(t["args"][0], 8, named_leaf=True)
            if ("field", "iter") not in leaves(e):
                continue
            n += 1
            sw = succ[h][0] if succ[h] else None
            while sw is not None and b.blocks[sw]["term"]["k"] == "goto":
                sw = succ[sw][0]
            body = None
            if sw is not None and b.blocks[sw]["term"]["k"] == "switch":
                for (v, tgt) in b.switch_edges(sw):
                    if v == 1:
                        body = tgt
            if body is None:
                o.check(b, "pull#%d" % n, t["line"], False, "", "the Some arm of the row iterator's next() was not recognised - fail closed")
                continue
            free = reach(b, body, avoid=stores)
            esc = (h in free) or bool(free & rets)
            o.check(b, "pull#%d" % n, t["line"], bool(stores) and not esc, "every path from a pulled element to the next pull / return stores the id counter",
                    "an element is pulled from the row iterator and the function can return or pull the next one without storing the id counter (the skipped mirror "
                    "entries of an undirected edge): edge ids of edge_references() lag behind those of edges(a) - the same id names two different edges")
        o.check(b, "pulls", b.line, n >= 1, "%d pull site(s)" % n, "row iterator pull not found in EdgeReferences::next")
    o.r.floor = 2
    return o.r


# C09: kosaraju emits what the walkers emit
def kosaraju_emits_walker_output(facts):
    o = Obl("GUARD-SCCEMIT", "kosaraju_scc: every node pushed into the finish order or into a component is the result of a walker's next() (Dfs / DfsPostOrder emit each "
                             "node once) - or is dominated by the true edge of a test-and-set on that node; a hand-rolled stack walk that filters first and marks later "
                             "lists a node twice when parallel edges lead to it")
    for b in o.need_fn(facts, "algo::kosaraju_scc"):
        n = 0
        for i, t in b.calls():
            if last_seg(t["f"]["path"]) != "push" or not norm_path(t["f"]["path"]).startswith("alloc::vec::Vec") or len(t["args"]) < 2:
                continue
            al = op_local(t["args"][1])
            if al is not None and b.lty(al).startswith("alloc::vec::Vec"):
                continue        # sccs.push(scc)
            recv = b.expr(t["args"][0], 8, named_leaf=True)
            if any(x[0] == "field" and x[1] == "stack" for x in leaves(recv)):
                continue
            n += 1
            e = b.expr(t["args"][1], 10)
            from_walker = any(isinstance(s, tuple) and s[0] == "call" and last_seg(s[1]["path"]) == "next" and
                              ("traversal::Dfs" in norm_path(s[1]["path"]) or "traversal::DfsPostOrder" in norm_path(s[1]["path"]) or "Walker" in norm_path(s[1]["path"])
                               or "traversal::Dfs" in s[1].get("self", "") or "WalkerIter" in s[1].get("self", ""))
                              for s in walk_expr(e))
            marked = False
            nr = named_roots(b, t["args"][1])
            for (a, truth, src) in dom_atoms(b, i, named_leaf=True):
                for s in walk_expr(a):
                    if isinstance(s, tuple) and s[0] == "call" and norm_path(s[1]["path"]).endswith("VisitMap::visit") and truth is True and len(s[2]) >= 2:
                        if roots_of(b, s[2][1]) & nr:
                            marked = True
            o.check(b, "emit#%d" % n, t["line"], from_walker or marked, "the pushed node is a walker's next() / guarded by a test-and-set",
                    "a node is pushed into the result without coming from Dfs::next / DfsPostOrder::next and without a dominating `visit(node) == true`: with parallel "
                    "edges the same node is listed twice in its component (the result is not a partition)")
        # the same emission written as `v.extend(iter)` / `iter.collect()`: the iterator must be a walker (Walker::iter) or from_fn(|| walker.next(g))
        for i, t in b.calls():
            nm = last_seg(t["f"]["path"])
            if nm == "extend" and norm_path(t["f"]["path"]).startswith(("alloc::vec::Vec", "core::iter::Extend")) and len(t["args"]) >= 2:
                recv = b.expr(t["args"][0], 8, named_leaf=True)
                if any(x[0] == "field" and x[1] == "stack" for x in leaves(recv)):
                    continue
                src = t["args"][1]
            elif nm in ("collect", "from_iter") and t["args"] and b.lty(t["dest"]["l"]).startswith("alloc::vec::Vec") and not b.lty(t["dest"]["l"]).startswith("alloc::vec::Vec<alloc::vec::Vec"):
                src = t["args"][0]
            else:
                continue
            n += 1
            e = b.expr(src, 12)
            okw = False
            for s_ in walk_expr(e):
                if isinstance(s_, tuple) and s_[0] == "call" and (last_seg(s_[1]["path"]) == "iter" and "Walker" in norm_path(s_[1]["path"])):
                    okw = True
                if isinstance(s_, tuple) and s_[0] == "agg" and len(s_) > 1 and isinstance(s_[1], str) and "{closure" in s_[1] and facts.body(s_[1]) is not None:
                    cb = facts.body(s_[1])
                    for _, _, st2 in cb.stmts():
                        if st2["lhs"]["l"] == 0 and not st2["lhs"]["p"]:
                            pass
                    if any(last_seg(t2["f"]["path"]) == "next" and ("traversal::Dfs" in norm_path(t2["f"]["path"]) or "traversal::Dfs" in t2["f"].get("self", "")) and t2["dest"]["l"] == 0
                           for _, t2 in cb.calls()):
                        okw = True
            o.check(b, "emit#%d" % n, t["line"], okw, "the collected nodes are a walker's output",
                    "nodes are collected into the result from an iterator that is not a Dfs / DfsPostOrder walker: a node may be listed twice (the result is not a partition)")
        o.check(b, "emits", b.line, n >= 2, "%d emission site(s)" % n, "expected the finish-order push and the component push in kosaraju_scc")
    o.r.floor = 3
    return o.r


def roots_of(b, e):
    return {x for x in leaves(e) if x[0] in ("arg", "local")}


# C14: the two directions of OrderMap are written together
def ordermap_both_directions(facts):
    r = RuleResult("PAIR-ORDERMAP", "OrderMap keeps a bijection in two tables (pos_to_node: BTreeMap, node_to_pos: Vec): a function that writes one direction writes the other on "
                                    "every path to its normal return - in particular no early return of set_position skips the pos_to_node entry (node_to_pos of a freed slot "
                                    "holds the default position 0, which is also a real position)")
    n = 0
    for b in facts.bodies:
        if b.file != "src/acyclic/order_map.rs" or b.kind != "AssocFn" or b.name not in ("set_position", "add_node", "remove_node"):
            continue
        ins = {i for i, t in b.calls() if last_seg(t["f"]["path"]) in ("insert", "remove") and "BTreeMap" in norm_path(t["f"]["path"])}
        sts = set()
        for i, j, st in b.stmts():
            lhs = st["lhs"]
            if lhs["p"] and lhs["p"][0] == "*":
                base = b.local_expr(lhs["l"], 10)
                if ("field", "node_to_pos") in leaves(base) or any(isinstance(s_, tuple) and s_[0] == "place" and any(isinstance(q, tuple) and q[0] == "f" and q[2] == "node_to_pos"
                                                                                                                for q in s_[2]) for s_ in walk_expr(base)):
                    sts.add(i)
            if any(isinstance(x, dict) and x.get("n") == "node_to_pos" for x in lhs["p"]) and any(isinstance(x, dict) and "ix" in x for x in lhs["p"]):
                sts.add(i)
        for i, t in b.calls():
            if last_seg(t["f"]["path"]) in ("take", "replace") and t["args"] and ("field", "node_to_pos") in leaves(b.expr(t["args"][0], 8, named_leaf=True)):
                sts.add(i)
        if not ins and not sts:
            continue
        n += 1
        rets = {i for i, bl in enumerate(b.blocks) if bl["term"]["k"] == "return" and not bl["cleanup"]}
        miss = []
        if ins and (reach(b, 0, avoid=ins) & rets):
            miss.append("pos_to_node")
        if sts and (reach(b, 0, avoid=sts) & rets):
            miss.append("node_to_pos")
        if not ins:
            miss.append("pos_to_node (never written)")
        if not sts:
            miss.append("node_to_pos (never written)")
        if miss:
            r.bad(Violation("PAIR-ORDERMAP", b.npath, "both-directions", b.file, b.line,
                            "%s can return without writing %s: the node keeps a position that the position index does not know (nodes_iter / range / at_position skip "
                            "it, a later node is given the same position and a cycle is accepted)" % (b.name, " and ".join(miss))))
        else:
            r.ok(b.npath, "both-directions", "both tables are written on every path to the return")
    r.floor = 3
    r.floor_what = "OrderMap writers"
    return r


# C15: residual arithmetic is direction-aware
def residual_arithmetic_is_directional(facts):
    r = RuleResult("FLOW-RESIDUAL", "ford_fulkerson.rs: capacity/flow subtraction happens only where the traversal direction of the edge is known - inside residual_capacity / "
                                    "adjust_residual_flow, or under a comparison of the vertex with edge.source() / edge.target(); `capacity - flow` is the residual of a forward "
                                    "edge only (a backward edge's residual is its flow)")
    n = 0
    for b in facts.bodies:
        if b.file != "src/algo/ford_fulkerson.rs" or b.kind not in ("Fn", "AssocFn", "Closure"):
            continue
        for i, t in b.calls():
            if norm_path(t["f"]["path"]) not in ("core::ops::Sub::sub", "core::ops::SubAssign::sub_assign"):
                continue
            n += 1
            directional = False
            for (a, truth, src) in dom_atoms(b, i):
                if any(isinstance(s, tuple) and s[0] == "call" and last_seg(s[1]["path"]) in ("source", "target") for s in walk_expr(a)):
                    directional = True
            site = "sub#%d" % n
            if directional:
                r.ok(b.npath, site, "under a test of the vertex against an endpoint of the edge")
            else:
                r.bad(Violation("FLOW-RESIDUAL", b.npath, "undirected-sub", b.file, t["line"],
                                "a capacity / flow subtraction that is not under a test of the traversal direction: along a backward edge of an augmenting path the "
                                "bottleneck becomes capacity - flow instead of flow - flows go negative (or underflow) and the value exceeds the minimum cut"))
    r.floor = 2
    r.floor_what = "subtractions in ford_fulkerson.rs"
    return r


# C18 / C04 / C06: an index is compared with a bound, not with a count
def index_vs_count(facts):
    r = RuleResult("DIM-CMP", "MatrixGraph / StableGraph have vacant indices: a node index is never tested against node_count() of such a graph (a live node can have an index "
                              ">= the count); the only such comparison allowed is the growth loop `while ix >= node_count() { add_node }`")
    n = 0
    NONCOMPACT = ("adt:matrix_graph::MatrixGraph", "adt:graph_impl::stable_graph::StableGraph")
    for b in facts.bodies:
        if not b.file.startswith("src/") or "quickcheck" in b.file or b.kind not in ("Fn", "AssocFn", "Closure"):
            continue
        for i, bl in enumerate(b.blocks):
            t = bl["term"]
            if t["k"] != "switch" or bl["cleanup"]:
                continue
            e = b.expr(t["d"], 10)
            if not (isinstance(e, tuple) and e[0] == "bin" and e[1] in ("Lt", "Le", "Gt", "Ge")):
                continue
            for x, y in ((e[2], e[3]), (e[3], e[2])):
                cnt = [s for s in walk_expr(x) if isinstance(s, tuple) and s[0] == "call" and last_seg(s[1]["path"]) == "node_count" and
                       (s[1].get("selfhead") in NONCOMPACT or any(h[4:] in s[1].get("self", "") for h in NONCOMPACT))]
                idx = [s for s in walk_expr(y) if isinstance(s, tuple) and s[0] == "call" and last_seg(s[1]["path"]) in ("index", "to_index")]
                if not cnt or not idx:
                    continue
                n += 1
                growth = any(last_seg(t2["f"]["path"]) in ("add_node", "try_add_node") and i in reach(b, j2) for j2, t2 in b.calls() if j2 in reach(b, i))
                site = "cmp#%d" % n
                if growth:
                    r.ok(b.npath, site, "growth loop: nodes are added until the index exists")
                else:
                    r.bad(Violation("DIM-CMP", b.npath, "index-vs-count", b.file, t.get("line", b.line),
                                    "a node index is compared with node_count() of a graph type that has vacant indices: after a removal a live node has an index >= the count, "
                                    "so the test rejects it (MatrixGraph::is_adjacent then reports no edges for it and the graph6 encoding silently drops them)"))
    r.floor = 1
    r.floor_what = "index / node_count comparisons on MatrixGraph or StableGraph"
    return r


# C20 / C07: a vector filled in enumeration order is indexed by position, not by to_index
ENUM_SRC = ("node_identifiers", "node_references", "node_indices")


def position_vs_index(facts):
    r = RuleResult("DIM-COLLECT", "a Vec collected from node_identifiers() / node_references() holds one entry per node IN ENUMERATION ORDER (length node_count): it is indexed with "
                                  "NodeIndexable::to_index(..) only under a NodeCompactIndexable bound - on a graph with vacant indices position and index differ")
    n = 0
    for b0 in facts.bodies:
        if not b0.file.startswith("src/algo") or b0.kind not in ("Fn", "AssocFn"):
            continue
        compact = any("NodeCompactIndexable" in str(p_) for p_ in (b0.preds or []))
        for b in facts.with_closures(b0):
            for i, t in b.calls():
                if last_seg(t["f"]["path"]) not in ("collect", "from_iter") or not t["args"]:
                    continue
                n += 1
                if "Vec<" not in b.lty(t["dest"]["l"]):
                    r.ok(b.npath, "collect#%d" % n, "not collected into a Vec")
                    continue
                e = b.expr(t["args"][0], 14)
                if not any(isinstance(s, tuple) and s[0] == "call" and last_seg(s[1]["path"]) in ENUM_SRC and s[1].get("crate") == "petgraph" for s in walk_expr(e)):
                    r.ok(b.npath, "collect#%d" % n, "not a node enumeration")
                    continue
                vec_l = t["dest"]["l"]
                bad = _indexed_by_to_index(facts, b, vec_l, 2)
                site = "collect#%d" % n
                if bad and not compact:
                    r.bad(Violation("DIM-COLLECT", b.npath, "position-indexed", b.file, t["line"],
                                    "a Vec filled in node_identifiers() order is indexed with to_index(..) (%s) and the function does not require NodeCompactIndexable: on a "
                                    "StableGraph / MatrixGraph with a vacant index every node gets the entry of another node, or the lookup is out of bounds" % bad))
                else:
                    r.ok(b.npath, site, "not indexed by to_index" if not bad else "NodeCompactIndexable is required")
    r.floor = 20
    r.floor_what = "collect() sites in src/algo examined"
    return r


def _indexed_by_to_index(facts, b, l, depth):
    """does body b (or a crate-local callee that receives the value) index local l with an expression containing NodeIndexable::to_index?"""
    held = {l}
    changed = True
    while changed:
        changed = False
        for i, j, st in b.stmts():
            rv = st["rv"]
            ops = [op_local(x) for x in rv.get("o", [])] + ([rv["pl"]["l"]] if rv.get("pl") else [])
            if any(x in held for x in ops) and not st["lhs"]["p"] and st["lhs"]["l"] not in held and rv["k"] in ("use", "ref", "rawptr", "cast"):
                held.add(st["lhs"]["l"])
                changed = True
        for i, t in b.calls():
            if t["args"] and op_local(t["args"][0]) in held and last_seg(t["f"]["path"]) in ("deref", "deref_mut", "as_slice", "as_mut_slice", "borrow", "as_ref", "iter") \
                    and t["dest"]["l"] not in held:
                held.add(t["dest"]["l"])
                changed = True
    for i, t in b.calls():
        nm = last_seg(t["f"]["path"])
        if nm in ("index", "index_mut", "get", "get_mut", "get_unchecked") and len(t["args"]) >= 2 and op_local(t["args"][0]) in held:
            ie = b.expr(t["args"][1], 10)
            if any(isinstance(s, tuple) and s[0] == "call" and norm_path(s[1]["path"]).endswith("NodeIndexable::to_index") for s in walk_expr(ie)):
                return "%s at line %d" % (b.npath, t["line"])
    for i, j, st in b.stmts():
        for pl in [st["lhs"]] + ([st["rv"]["pl"]] if st["rv"].get("pl") else []) + [q for q in (op_place(o_) for o_ in st["rv"].get("o", [])) if q]:
            if pl["l"] in held:
                for x in pl["p"]:
                    if isinstance(x, dict) and "ix" in x:
                        ie = b.local_expr(x["ix"], 10)
                        if any(isinstance(s, tuple) and s[0] == "call" and norm_path(s[1]["path"]).endswith("NodeIndexable::to_index") for s in walk_expr(ie)):
                            return "%s at line %d" % (b.npath, st["line"])
    if depth > 0:
        for i, t in b.calls():
            if t["f"].get("crate") != "petgraph":
                continue
            for k, a in enumerate(t["args"]):
                if op_local(a) in held:
                    for cb in facts.find(norm_path(t["f"]["path"])):
                        if cb is b and depth < 2:
                            continue
                        hit = _indexed_by_to_index(facts, cb, k + 1, depth - 1)
                        if hit:
                            return hit
    return None


# ------------------------------------------------------------------------------------------------ round 10 (i)
# C05: the node count of from_sorted_edges covers both endpoints of every edge
def _fields_per_call(b, start_locals):
    """backward slice from start_locals inside body b: {into_weighted_edge call block: set of first-level fields of its result that the slice reads}, closures met"""
    per_call, closures = {}, set()
    iwe = {t["dest"]["l"]: i for i, t in b.calls() if last_seg(t["f"]["path"]) == "into_weighted_edge"}
    seen, work = set(), list(start_locals)
    while work and len(seen) < 400:
        l = work.pop()
        if l in seen:
            continue
        seen.add(l)
        for d in b.defs().get(l, []):
            if d[0] in ("st", "pst"):
                rv = b.blocks[d[1]]["st"][d[2]]["rv"]
                pls = ([rv["pl"]] if rv.get("pl") else []) + [q for q in (op_place(o_) for o_ in rv.get("o", [])) if q]
                for pl in pls:
                    if pl["l"] in iwe:
                        fs = [x["f"] for x in pl["p"] if isinstance(x, dict) and "f" in x]
                        if fs:
                            per_call.setdefault(iwe[pl["l"]], set()).add(fs[0])
                    work.append(pl["l"])
                if rv["k"] == "agg" and rv.get("ak") == "closure":
                    closures.add(rv["name"])
            elif d[0] == "call":
                for a_ in b.blocks[d[1]]["term"]["args"]:
                    pl = op_place(a_)
                    if pl is not None:
                        work.append(pl["l"])
    return per_call, closures


def csr_sorted_size(facts):
    o = Obl("FLOW-CSRSIZE", "Csr::from_sorted_edges sizes the graph by the maximum over BOTH endpoints of EVERY input edge: the value given to with_nodes(..) is computed from "
                            "the source AND the target of one and the same into_weighted_edge() result, per edge (in a loop or in the closure that feeds the maximum) - a source "
                            "that is not covered ends the row scan early and the remaining (unsorted) edges are dropped with Ok")
    for b0 in o.need_fn(facts, "csr::Csr::from_sorted_edges"):
        n = 0
        good = False
        for i, t in b0.calls():
            if last_seg(t["f"]["path"]) != "with_nodes" or not t["args"]:
                continue
            e = b0.expr(t["args"][0], 4)
            if isinstance(e, tuple) and e[0] == "const":
                continue
            n += 1
            starts = [op_place(t["args"][0])["l"]] if op_place(t["args"][0]) else []
            per_call, closures = _fields_per_call(b0, starts)
            if any({0, 1} <= fs for fs in per_call.values()):
                good = True
            for cp in closures:
                cb = facts.body(cp)
                if cb is None:
                    continue
                pc2, _ = _fields_per_call(cb, [0])
                if any({0, 1} <= fs for fs in pc2.values()):
                    good = True
        o.check(b0, "size-covers-both-endpoints", b0.line, good and n >= 1, "the node count is computed from source and target of every edge",
                "the value given to with_nodes(..) is not computed from both endpoints of each edge: the node count no longer covers every source, so an out-of-order edge "
                "whose source is past the count is never looked at and the function returns Ok with edges missing")
    o.r.floor = 1
    return o.r


# C06: adjacency matrices are only ever filled
def adjacency_matrix_only_sets(facts):
    r = RuleResult("WHO-CLEARS", "GetAdjacencyMatrix::adjacency_matrix builds the bit matrix by setting bits only (put / insert / set(_, true)): nothing in it clears, toggles or "
                                 "writes a computed value - the bit of an earlier edge a -> b must survive the later edge b -> a")
    n = 0
    for b0 in facts.bodies:
        if b0.kind != "AssocFn" or b0.name != "adjacency_matrix" or not b0.file.startswith("src/"):
            continue
        for b in facts.with_closures(b0):
            for i, t in b.calls():
                np_ = norm_path(t["f"]["path"])
                if not np_.startswith("fixedbitset::FixedBitSet"):
                    continue
                nm = last_seg(np_)
                if nm in ("with_capacity", "put", "insert", "grow", "len", "contains", "new", "with_capacity_and_blocks", "grow_and_insert"):
                    if nm in ("put", "insert", "grow_and_insert"):
                        n += 1
                        r.ok(b.npath, "set#%d" % n, "sets a bit")
                    continue
                n += 1
                if nm == "set" and len(t["args"]) >= 3 and t["args"][2].get("const") in ("1", "true"):
                    r.ok(b.npath, "set#%d" % n, "set(_, true)")
                    continue
                r.bad(Violation("WHO-CLEARS", b.npath, "bit-write:%s" % nm, b.file, t["line"],
                                "adjacency_matrix writes a bit with FixedBitSet::%s (a cleared / toggled / computed value): for a directed graph the transposed bit of edge "
                                "a -> b is the bit of edge b -> a, so an antiparallel pair loses one of its edges in is_adjacent" % nm))
    r.floor = 3
    r.floor_what = "bit writes in adjacency_matrix impls"
    return r


# C09 / C07: TarjanScc's counters start at 1 and usize::MAX
def tarjan_initial_state(facts):
    r = RuleResult("RESET-TARJANINIT", "TarjanScc encodes `unvisited` as rootindex None = NonZero::new(0): every construction of the struct starts `index` at 1 and `componentcount` at "
                                       "usize::MAX (a derived Default would start both at 0: the first node looks unvisited and componentcount - 1 underflows)")
    n = 0
    for b in facts.bodies:
        if not b.file.startswith("src/"):
            continue
        for i, j, st in b.stmts():
            rv = st["rv"]
            if rv["k"] != "agg" or rv.get("ak") != "adt" or not rv.get("name", "").endswith("algo::TarjanScc"):
                continue
            n += 1
            e0 = b.expr(rv["o"][0], 6) if rv["o"] else None
            e1 = b.expr(rv["o"][1], 6) if len(rv["o"]) > 1 else None
            ok = isinstance(e0, tuple) and e0[0] == "const" and e0[1] == "1" and isinstance(e1, tuple) and e1[0] == "const" and ("MAX" in e1[1] or e1[1] in ("18446744073709551615", "4294967295"))
            if ok:
                r.ok(b.npath, "construct#%d" % n, "index = 1, componentcount = usize::MAX")
            else:
                r.bad(Violation("RESET-TARJANINIT", b.npath, "construct", b.file, st["line"],
                                "a TarjanScc is constructed with index / componentcount other than 1 / usize::MAX: the first visited node gets rootindex NonZero::new(0) = None "
                                "(looks unvisited), emitted components are re-visited and `componentcount -= 1` underflows"))
    r.floor = 1
    r.floor_what = "TarjanScc constructions"
    return r


# C10: dijkstra stops on the popped node only
def dijkstra_exits(facts):
    o = Obl("GUARD-DIJKGOAL", "dijkstra leaves its main loop only when the heap is empty or when the node just POPPED (settled) is the goal: an exit taken on an edge target whose "
                              "score was merely improved ignores the out-edges of the current node that have not been relaxed yet")
    for b in o.need_fn(facts, "algo::dijkstra::dijkstra"):
        pops = [(i, t) for i, t in b.calls() if last_seg(t["f"]["path"]) == "pop" and "BinaryHeap" in norm_path(t["f"]["path"])]
        o.check(b, "pop", b.line, len(pops) >= 1, "heap pop found", "BinaryHeap::pop not found in dijkstra")
        if not pops:
            continue
        h = pops[0][0]
        succ = b.cfg()[0]
        loop = {x for x in reach(b, h) if h in reach(b, x)}
        rets = {i for i, bl in enumerate(b.blocks) if bl["term"]["k"] == "return" and not bl["cleanup"]}
        popped = {("local", l) for l in range(len(b.locals)) if b.lname(l)} & set()
        # named locals bound from the popped element
        from_pop = derived_locals(b, {pops[0][1]["dest"]["l"]})
        pop_roots = {("local", l) for l in from_pop if b.lname(l)}
        n = 0
        for u in sorted(loop):
            for v in succ[u]:
                if v in loop or not (reach(b, v) & rets):
                    continue
                n += 1
                if u == h or (b.blocks[u]["term"]["k"] == "switch" and any(isinstance(s, tuple) and s[0] == "call" and s[3] == h for s in walk_expr(b.expr(b.blocks[u]["term"]["d"], 6)))):
                    o.check(b, "exit#%d" % n, b.blocks[u]["term"].get("line", b.line), True, "the heap is empty", "")
                    continue
                ok = False
                atoms = list(dom_atoms(b, u, named_leaf=True))
                if b.blocks[u]["term"]["k"] == "switch":
                    for (lab, tgt) in b.switch_edges(u):
                        if tgt == v:
                            cases = [c for c in b.switch_edges(u) if c[0] != "otherwise"]
                            if lab == "otherwise" and len(cases) == 1 and cases[0][0] in (0, 1):
                                lab = 1 - cases[0][0]      # a bool switch: the other value
                            for nl in (True, False):
                                ea = edge_atom(b, u, lab, 14, nl)
                                if ea is not None:
                                    atoms.append((ea[0], ea[1], u))
                for (a, truth, src) in atoms:
                    for s in walk_expr(a):
                        if isinstance(s, tuple) and s[0] == "call" and last_seg(s[1]["path"]) in ("map_or", "is_some_and", "contains") and len(s[2]) >= 2:
                            # goal.as_ref().map_or(false, |g| *g == node): the closure captures the popped node and is applied to the goal
                            lv = set()
                            for a_ in s[2]:
                                lv |= set(leaves(a_))
                            clo = [x for a_ in s[2] for x in walk_expr(a_) if isinstance(x, tuple) and x[0] == "agg" and len(x) > 1 and isinstance(x[1], str) and "{closure" in x[1]]
                            cmp_in_clo = any(facts.body(c_[1]) is not None and any(last_seg(t_["f"]["path"]) in ("eq", "ne") for _, t_ in facts.body(c_[1]).calls()) for c_ in clo)
                            has_pop = bool(lv & pop_roots) or any(isinstance(x, tuple) and x[0] == "call" and x[3] == h for a_ in s[2] for x in walk_expr(a_))
                            if has_pop and ("arg", 3) in lv and (cmp_in_clo or last_seg(s[1]["path"]) == "contains"):
                                ok = True
                        if isinstance(s, tuple) and s[0] == "call" and last_seg(s[1]["path"]) in ("eq", "ne") and len(s[2]) >= 2:
                            rts = set()
                            for a_ in s[2]:
                                rts |= roots_named(b, a_)
                            has_pop = bool(rts & pop_roots) or any(isinstance(x, tuple) and x[0] == "call" and x[3] == h for a_ in s[2] for x in walk_expr(a_))
                            if has_pop and ("arg", 3) in {x for a_ in s[2] for x in leaves(a_)} | rts:
                                ok = True
                o.check(b, "exit#%d" % n, b.blocks[u]["term"].get("line", b.line), ok, "the exit is taken when the popped node equals the goal",
                        "dijkstra leaves its loop on a test that does not compare the goal with the node just popped: the goal's score is returned before every cheaper route "
                        "through the node being expanded has been relaxed (the goal's entry is not exact)")
        o.check(b, "exits", b.line, n >= 2, "%d loop exit(s)" % n, "expected the heap-empty exit and the goal exit of dijkstra's loop")
    o.r.floor = 3
    return o.r


# C14: Acyclic::remove_node tests presence, not bounds
def acyclic_remove_presence(facts):
    r = RuleResult("GUARD-ACYCLICPRESENT", "Acyclic::remove_node touches the order map only for a node that is PRESENT in the inner graph: the call order_map.remove_node(n) is dominated by "
                                           "the Some outcome of node_weight(n) / a true contains_node(n) - an index bound is not enough for a StableDiGraph (a vacant index has the "
                                           "default position 0, which belongs to a live node)")
    n = 0
    for b in facts.bodies:
        if b.file != "src/acyclic.rs" or b.kind != "AssocFn" or b.name != "remove_node":
            continue
        for i, t in b.calls():
            if not norm_path(t["f"]["path"]).endswith("order_map::OrderMap::remove_node"):
                continue
            n += 1
            ok = False
            for (a, truth, src) in dom_atoms(b, i):
                for s in walk_expr(a):
                    if isinstance(s, tuple) and s[0] == "call" and last_seg(s[1]["path"]) in ("node_weight", "contains_node", "node_weight_mut"):
                        ok = True
            if ok:
                r.ok(b.npath, "order-remove#%d" % n, "dominated by a presence test of the node")
            else:
                r.bad(Violation("GUARD-ACYCLICPRESENT", b.npath, "order-remove", b.file, t["line"],
                                "order_map.remove_node(n) is not dominated by a presence test of n in the inner graph: removing a vacant index of a StableDiGraph a second time "
                                "deletes the live node at position 0 from the position index (nodes_iter / range lose it)"))
    r.floor = 2
    r.floor_what = "order_map.remove_node call sites in Acyclic::remove_node"
    return r


# C15: the greedy walk never releases a node
def matching_never_unvisits(facts):
    r = RuleResult("WHO-UNVISIT", "matching.rs: a node that has been visited by the greedy non-backtracking walk / the augmenting search is never released (VisitMap::unvisit, "
                                  "FixedBitSet::set(_, false) / toggle / remove are not called): a released dead-end node has already been matched and would be matched again")
    n = 0
    for b in facts.bodies:
        if b.file != "src/algo/matching.rs" or b.kind not in ("Fn", "AssocFn", "Closure"):
            continue
        n += 1
        bad = []
        for i, t in b.calls():
            np_ = norm_path(t["f"]["path"])
            nm = last_seg(np_)
            if np_.endswith("VisitMap::unvisit") or (np_.startswith("fixedbitset::FixedBitSet") and nm in ("toggle", "remove", "clear", "set") and
                                                     not (nm == "set" and len(t["args"]) >= 3 and t["args"][2].get("const") in ("1", "true"))):
                bad.append((nm, t["line"]))
            if np_.startswith(("std::collections::HashSet", "hashbrown::HashSet", "hashbrown::set::HashSet")) and nm == "remove":
                bad.append((nm, t["line"]))
        if bad:
            r.bad(Violation("WHO-UNVISIT", b.npath, "release", b.file, bad[0][1],
                            "%s releases a visited node (%s): the node may already carry a mate; a later start pairs it again - mate is no longer symmetric and len() / edges() "
                            "disagree" % (b.npath, bad[0][0])))
        else:
            r.ok(b.npath, "no-release", "no visit mark is ever cleared")
    r.floor = 10
    r.floor_what = "functions of matching.rs"
    return r


# C18: the connector comes from is_directed() on every path
def dot_connector_source(facts):
    o = Obl("FLOW-DOTKIND", "Dot::graph_fmt picks the graph keyword and the edge connector from the two-entry tables TYPE / EDGE with an index that is is_directed() on EVERY path - "
                            "a cached index that is only assigned under some option prints `--` for the edges of a directed graph")
    for b in o.need_fn(facts, "dot::Dot::graph_fmt"):
        n = 0
        for i, j, st in b.stmts():
            for pl in [st["lhs"]] + ([st["rv"]["pl"]] if st["rv"].get("pl") else []) + [q for q in (op_place(o_) for o_ in st["rv"].get("o", [])) if q]:
                ixs = [x["ix"] for x in pl["p"] if isinstance(x, dict) and "ix" in x]
                if not ixs or "str; 2" not in b.lty(pl["l"]):
                    continue
                n += 1
                work, seen, ok = [ixs[0]], set(), True
                while work:
                    l = work.pop()
                    if l in seen:
                        continue
                    seen.add(l)
                    ds = [d for d in b.defs().get(l, []) if d[0] in ("st", "call")]
                    if not ds:
                        ok = False
                    for d in ds:
                        if d[0] == "call":
                            ok = ok and last_seg(b.blocks[d[1]]["term"]["f"]["path"]) == "is_directed"
                            continue
                        rv = b.blocks[d[1]]["st"][d[2]]["rv"]
                        if rv["k"] in ("use", "cast") and op_local(rv["o"][0]) is not None and not op_place(rv["o"][0])["p"]:
                            work.append(op_local(rv["o"][0]))
                        else:
                            ok = False
                o.check(b, "table-index#%d" % n, st["line"], ok, "the table index is is_directed() on every path",
                        "a TYPE / EDGE table is indexed by a value that is not is_directed() on every path (a default or cached index): with GraphContentOnly a directed "
                        "graph's edge statements are printed with `--`")
        o.check(b, "table-indexes", b.line, n >= 2, "%d table lookup(s)" % n, "expected the TYPE and EDGE table lookups in graph_fmt")
    o.r.floor = 3
    return o.r


# C20: DSatur's key is (saturation, degree), compared in that order
def dsatur_key_shape(facts):
    o = Obl("TYPE-DSATURKEY", "dsatur_coloring orders its heap by the pair (saturation, degree), saturation first: every heap push carries a 2-tuple score whose first component is "
                              "the size of the node's neighbour-colour set (0 at the start) - a single combined number lets a high-degree uncoloured node overtake a saturated one "
                              "and a bipartite graph gets a third colour")
    for b in o.need_fn(facts, "algo::coloring::dsatur_coloring"):
        n = 0
        for i, t in b.calls():
            if last_seg(t["f"]["path"]) != "push" or "BinaryHeap" not in norm_path(t["f"]["path"]) or len(t["args"]) < 2:
                continue
            n += 1
            e = strip_casts(b.expr(t["args"][1], 10))
            ok = False
            if isinstance(e, tuple) and e[0] == "agg" and e[3]:
                sc = strip_casts(e[3][0])
                if isinstance(sc, tuple) and sc[0] == "agg" and len(sc[3]) == 2:
                    first = strip_casts(sc[3][0])
                    ok = (isinstance(first, tuple) and first[0] == "const" and first[1] == "0") or \
                        any(isinstance(s, tuple) and s[0] == "call" and last_seg(s[1]["path"]) == "len" for s in walk_expr(first))
            o.check(b, "push#%d" % n, t["line"], ok, "score = (saturation, degree)",
                    "a heap entry of dsatur_coloring is not scored by the pair (saturation, degree) with the saturation first: the selection order is no longer DSatur's and "
                    "bipartite graphs may need a third colour")
        o.check(b, "pushes", b.line, n >= 2, "%d heap push(es)" % n, "expected the seeding push and the re-queue push")
    o.r.floor = 3
    return o.r
