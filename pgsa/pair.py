"""PAIR - paired updates: cached counters and lock-step vectors (DESIGN 3.4).

Two rule shapes, both function-granular (a function and its closures):

COUNTER  a store-class operation on the counted store (cell / weight slot) that changes occupancy must be
         accompanied, in the same function, by the matching counter update - and vice versa.
LOCKSTEP two vectors declared to move in lock step receive the same mutating calls with the same
         position operand in every function.
"""
import re

from .core import op_place, op_local, callee_name, last_seg, norm_path, place_str, walk_expr
from .report import RuleResult, Violation
from .tag import leaves, strip_casts

CLEAR, SET, CLEAR_ALL = "CLEAR", "SET", "CLEAR_ALL"
INC, DEC, ZERO, COPYCOUNT = "INC", "DEC", "ZERO", "COPY"


def counter_events(b, adt, field):
    """stores to <adt>.<field> classified by the stored expression"""
    out = []
    for i, j, st in b.stmts():
        lhs = st["lhs"]
        fs = [x for x in lhs["p"] if isinstance(x, dict) and "f" in x]
        if not fs or fs[-1].get("n") != field or fs[-1].get("a") != adt:
            continue
        rv = st["rv"]
        ev = "OTHER"
        e = None
        if rv["k"] == "use":
            e = b.expr(rv["o"][0], 6)
        elif rv["k"] == "bin":
            e = ("bin", rv["op"], None, None)
        if e is not None:
            # (x +checked 1).0
            for s in walk_expr(e):
                if isinstance(s, tuple) and s[0] == "bin":
                    if s[1].startswith("Add"):
                        ev = INC
                    elif s[1].startswith("Sub"):
                        ev = DEC
                    break
            else:
                if e[0] == "const" and e[1] == "0":
                    ev = ZERO
                elif e[0] == "place" and any(isinstance(x, tuple) and x[0] == "f" and x[2] == field for x in e[2]):
                    ev = COPYCOUNT
        out.append((ev, st["line"]))
    return out


def _arg_refers_field(b, a, field, depth=10):
    e = b.expr(a, depth)
    return ("field", field) in leaves(e)


def _slot_kind_of_weight_ref(b, a):
    """for an operand like &mut slot.weight: 'Node' / 'Edge' if slot is a Graph Node/Edge with Option weight"""
    e = strip_casts(b.expr(a, 8))
    if isinstance(e, tuple) and e[0] == "ref" and isinstance(e[2], tuple) and e[2][0] == "place":
        for x in e[2][2]:
            if isinstance(x, tuple) and x[0] == "f" and x[2] == "weight":
                if x[3] == "graph_impl::Node":
                    return "Node"
                if x[3] == "graph_impl::Edge":
                    return "Edge"
    return None


def matrix_events(facts, root):
    """occupancy events on MatrixGraph.node_adjacencies cells"""
    ev = []
    for b in facts.with_closures(root):
        for i, t in b.calls():
            np_ = norm_path(t["f"]["path"])
            nm = last_seg(np_)
            if np_ in ("core::mem::take",) and t["args"] and _arg_refers_field(b, t["args"][0], "node_adjacencies"):
                ev.append((CLEAR, t["line"], "mem::take(cell)"))
            elif np_ == "core::mem::replace" and t["args"] and _arg_refers_field(b, t["args"][0], "node_adjacencies"):
                ev.append((SET, t["line"], "mem::replace(cell, new)"))
            elif nm in ("clear", "fill", "fill_with", "truncate") and t["args"] and _arg_refers_field(b, t["args"][0], "node_adjacencies") \
                    and norm_path(t["f"]["path"]).startswith(("alloc::vec::Vec", "core::slice")):
                ev.append((CLEAR_ALL, t["line"], "%s(cells)" % nm))
        for i, j, st in b.stmts():
            lhs = st["lhs"]
            # *cell_ref = <value>
            if lhs["p"] == ["*"]:
                base = b.local_expr(lhs["l"], 14)
                if ("field", "node_adjacencies") in leaves(base) and b.lty(lhs["l"]).startswith("&'{erased} mut"):
                    rv = st["rv"]
                    e = b.expr(rv["o"][0], 5) if rv["k"] == "use" else None
                    whole = any(isinstance(x, tuple) and x[0] == "call" and last_seg(x[1]["path"]) == "next" and "IterMut" in x[1].get("self", "")
                                for x in walk_expr(base))
                    if e is not None and e[0] == "call" and last_seg(e[1]["path"]) == "default":
                        if whole:
                            ev.append((CLEAR_ALL, st["line"], "for cell in cells.iter_mut() { *cell = Default::default() }"))
                        else:
                            ev.append((CLEAR, st["line"], "cell = Default::default()"))
                    else:
                        ev.append((SET, st["line"], "cell = value"))
    return ev


def stable_events(facts, root, kind):
    """occupancy events on StableGraph weight slots of the given kind ('Node'|'Edge')"""
    ev = []
    vec = "nodes" if kind == "Node" else "edges"
    for b in facts.with_closures(root):
        for i, t in b.calls():
            np_ = norm_path(t["f"]["path"])
            nm = last_seg(np_)
            if np_ == "core::option::Option::take" and t["args"] and _slot_kind_of_weight_ref(b, t["args"][0]) == kind:
                ev.append((CLEAR, t["line"], "slot.weight.take()"))
            elif np_ in ("core::option::Option::replace", "core::option::Option::insert", "core::option::Option::get_or_insert") and t["args"] \
                    and _slot_kind_of_weight_ref(b, t["args"][0]) == kind:
                ev.append((SET, t["line"], "slot.weight.%s(value)" % nm))
            elif np_ == "core::mem::take" and t["args"] and _slot_kind_of_weight_ref(b, t["args"][0]) == kind:
                ev.append((CLEAR, t["line"], "mem::take(slot.weight)"))
            elif np_ == "core::mem::replace" and t["args"] and _slot_kind_of_weight_ref(b, t["args"][0]) == kind:
                new = b.expr(t["args"][1], 4)
                if new[0] == "agg" and new[2] == "None":
                    ev.append((CLEAR, t["line"], "replace(slot.weight, None)"))
                else:
                    ev.append((SET, t["line"], "replace(slot.weight, Some)"))
            elif nm == "clear" and t["args"]:
                e = b.expr(t["args"][0], 8)
                lv = leaves(e)
                if np_.startswith("alloc::vec::Vec") and ("field", vec) in lv and ("field", "g") in lv:
                    ev.append((CLEAR_ALL, t["line"], "g.%s.clear()" % vec))
                elif callee_name(t["f"]) == "graph_impl::Graph::clear" and ("field", "g") in lv:
                    ev.append((CLEAR_ALL, t["line"], "g.clear()"))
                elif callee_name(t["f"]) == "graph_impl::Graph::clear_edges" and ("field", "g") in lv and kind == "Edge":
                    ev.append((CLEAR_ALL, t["line"], "g.clear_edges()"))
            elif callee_name(t["f"]) in ("graph_impl::Graph::add_node", "graph_impl::Graph::try_add_node") and kind == "Node" and len(t["args"]) >= 2:
                w = b.expr(t["args"][1], 4)
                if w[0] == "agg" and w[1] == "core::option::Option" and w[2] == "Some":
                    ev.append((SET, t["line"], "g.add_node(Some(w))"))
            elif nm in ("push",) and kind == "Edge" and len(t["args"]) >= 2 and _arg_refers_field(b, t["args"][0], "edges"):
                w = b.expr(t["args"][1], 6)
                if _edge_agg_weight(w) == "Some":
                    ev.append((SET, t["line"], "g.edges.push(Edge{weight: Some})"))
        if kind == "Edge":
            for i, j, st in b.stmts():
                lhs = st["lhs"]
                if lhs["p"] == ["*"] and re.search(r"mut graph_impl::Edge<core::option::Option<", b.lty(lhs["l"])) and st["rv"]["k"] == "use":
                    base = b.local_expr(lhs["l"], 8)
                    if ("field", "edges") in leaves(base):
                        w = b.expr(st["rv"]["o"][0], 6)
                        wk = _edge_agg_weight(w)
                        if wk == "Some":
                            ev.append((SET, st["line"], "*slot = Edge{weight: Some}"))
    return ev


def _edge_agg_weight(e):
    """'Some'/'None'/None for an Edge aggregate expression (possibly a named local initialised by one)"""
    if isinstance(e, tuple) and e[0] == "agg" and e[1] == "graph_impl::Edge" and e[3]:
        w = e[3][0]
        if isinstance(w, tuple) and w[0] == "agg" and w[1] == "core::option::Option":
            return w[2]
    return None


REQ = [  # (event on the store, acceptable counter events, message)
    (CLEAR, (DEC, ZERO), "clears an occupied element but never decrements the cached counter"),
    (SET, (INC,), "may occupy an element but never increments the cached counter"),
    (CLEAR_ALL, (ZERO,), "clears every element but never resets the cached counter to 0"),
]
REV = [
    (DEC, (CLEAR,), "decrements the cached counter without clearing an element"),
    (INC, (SET,), "increments the cached counter without occupying an element"),
    (ZERO, (CLEAR_ALL,), "resets the cached counter without clearing the elements"),
]

COUNTER_EXCEPTIONS = {
    # (pair name, function npath): reason
    ("StableGraph.nodes<->node_count", "graph_impl::stable_graph::StableGraph::link_edges"):
        "recount after deserialization: counter reset to 0 and incremented per live slot found (no occupancy change)",
    ("StableGraph.edges<->edge_count", "graph_impl::stable_graph::StableGraph::link_edges"):
        "recount after deserialization",
    ("StableGraph.edges<->edge_count", "graph_impl::stable_graph::StableGraph::clear_edges"): None,
}


def counters(facts):
    r = RuleResult("PAIR-COUNTER", "a function that changes the occupancy of a counted store (MatrixGraph cells <-> nb_edges, StableGraph "
                                   "node/edge weights <-> node_count/edge_count) also performs the matching counter update, and a counter "
                                   "update is accompanied by the matching occupancy change")
    specs = [
        ("MatrixGraph.cells<->nb_edges", "matrix_graph::MatrixGraph", "nb_edges", "src/matrix_graph.rs", lambda f, b: matrix_events(f, b)),
        ("StableGraph.nodes<->node_count", "graph_impl::stable_graph::StableGraph", "node_count", "src/graph_impl/stable_graph/mod.rs", lambda f, b: stable_events(f, b, "Node")),
        ("StableGraph.edges<->edge_count", "graph_impl::stable_graph::StableGraph", "edge_count", "src/graph_impl/stable_graph/mod.rs", lambda f, b: stable_events(f, b, "Edge")),
    ]
    for (name, adt, field, file, evf) in specs:
        for root in facts.bodies:
            if root.kind not in ("Fn", "AssocFn") or root.file != file:
                continue
            if not root.impl_selfhead.endswith(adt):
                continue
            sev = evf(facts, root)
            cev = []
            for b in facts.with_closures(root):
                cev += counter_events(b, adt, field)
            if not sev and not cev:
                continue
            exc = COUNTER_EXCEPTIONS.get((name, root.npath))
            if exc:
                r.ok(root.npath, name, "exception: " + exc)
                continue
            ckinds = {c[0] for c in cev}
            skinds = {s[0] for s in sev}
            if ckinds == {COPYCOUNT}:
                r.ok(root.npath, name, "copies the counter together with the store (clone_from)")
                continue
            bad = False
            for (ev, acc, msg) in REQ:
                hits = [s for s in sev if s[0] == ev]
                if hits and not (ckinds & set(acc)):
                    v = Violation("PAIR-COUNTER", root.npath, "%s:%s" % (name, ev), root.file, hits[0][1],
                                  "%s: %s (%s at line %d; counter updates seen: %s)" % (name, msg, hits[0][2], hits[0][1], sorted(ckinds) or "none"),
                                  {"store_events": sev, "counter_events": cev})
                    r.bad(v)
                    bad = True
            for (ev, acc, msg) in REV:
                hits = [c for c in cev if c[0] == ev]
                if hits and not (skinds & set(acc)):
                    v = Violation("PAIR-COUNTER", root.npath, "%s:%s" % (name, ev), root.file, hits[0][1],
                                  "%s: %s (line %d; store events seen: %s)" % (name, msg, hits[0][1], sorted(skinds) or "none"),
                                  {"store_events": sev, "counter_events": cev})
                    r.bad(v)
                    bad = True
            if not bad:
                r.ok(root.npath, name, "store events %s paired with counter events %s" % (sorted(skinds), sorted(ckinds)))
    r.floor = 10
    r.floor_what = "functions with occupancy/counter events"
    return r


# ------------------------------------------------------------------ lock-step vectors
MUTATORS = ("push", "insert", "clear", "remove", "swap_remove", "pop", "truncate", "extend", "resize", "drain", "retain",
            "append", "extend_from_slice", "split_off", "dedup", "sort", "reverse", "swap")
LOCKSTEP = [
    # (name, adt, fieldA, fieldB, file)
    ("Csr.column<->edges", "csr::Csr", "column", "edges", "src/csr.rs"),
    ("Csr.row<->node_weights", "csr::Csr", "row", "node_weights", "src/csr.rs"),
    ("UnionFind.parent<->rank", "unionfind::UnionFind", "parent", "rank", "src/unionfind.rs"),
]
LOCKSTEP_EXCEPTIONS = {}


def _vec_ops(facts, root, adt, field):
    ops = []
    for b in facts.with_closures(root):
        for i, t in b.calls():
            np_ = norm_path(t["f"]["path"])
            nm = last_seg(np_)
            if nm not in MUTATORS or not np_.startswith("alloc::vec::Vec"):
                continue
            if not t["args"]:
                continue
            e = strip_casts(b.expr(t["args"][0], 8))
            # receiver must be &mut <..>.field directly
            if not (isinstance(e, tuple) and e[0] == "ref" and isinstance(e[2], tuple) and e[2][0] == "place"):
                continue
            fs = [x for x in e[2][2] if isinstance(x, tuple) and x[0] == "f"]
            if not fs or fs[-1][2] != field or fs[-1][3] != adt:
                continue
            pos = None
            if nm in ("insert", "remove", "swap_remove", "truncate", "split_off") and len(t["args"]) >= 2:
                pe = b.expr(t["args"][1], 6, named_leaf=True)
                pos = tuple(sorted(x for x in leaves(pe) if x[0] in ("local", "arg")))
            ops.append((nm, pos, t["line"]))
    return ops


def lockstep(facts):
    r = RuleResult("PAIR-LOCKSTEP", "vectors that are declared to move in lock step (Csr.column/edges, Csr.row/node_weights, "
                                    "UnionFind.parent/rank) receive the same mutating Vec calls, with the same position operand, in every function")
    for (name, adt, fa, fb, file) in LOCKSTEP:
        for root in facts.bodies:
            if root.kind not in ("Fn", "AssocFn") or root.file != file:
                continue
            oa = _vec_ops(facts, root, adt, fa)
            ob = _vec_ops(facts, root, adt, fb)
            if not oa and not ob:
                continue
            ka = sorted((o[0], o[1]) for o in oa)
            kb = sorted((o[0], o[1]) for o in ob)
            if name == "Csr.row<->node_weights":
                # row has one more entry than node_weights: same ops expected all the same
                pass
            if ka != kb:
                line = (oa + ob)[0][2]
                v = Violation("PAIR-LOCKSTEP", root.npath, name, root.file, line,
                              "%s: %s gets %s but %s gets %s in the same function" % (name, fa, ka or "nothing", fb, kb or "nothing"),
                              {"a": oa, "b": ob})
                r.bad(v)
            else:
                r.ok(root.npath, name, "both get %s" % ka)
    r.floor = 5
    r.floor_what = "functions mutating a lock-step vector"
    return r
