"""Fact extraction: run the rustc_private driver over /repo's current working tree.

The fact file is cached under /verif/.cache keyed by a hash of the source tree + config,
recomputed on every invocation, so a cached file is only used for a byte-identical tree.
"""
import fcntl
import hashlib
import json
import os
import shutil
import subprocess
import sys
import tempfile
import time

VERIF = os.path.dirname(os.path.dirname(os.path.abspath(__file__)))
REPO = os.environ.get("PGSA_REPO", "/repo")
DRIVER = os.path.join(VERIF, "driver", "target", "release", "pgsa-driver")
CACHE = os.path.join(VERIF, ".cache")

CONFIGS = {
    # name: (cargo feature args, debug_assertions)
    "serde": (["--features", "serde-1"], True),
    "all": (["--all-features"], True),
    "nostd": (["--no-default-features", "--features", "graphmap,stable_graph,matrix_graph"], True),
    "serde-nodebug": (["--features", "serde-1"], False),
    "all-nodebug": (["--all-features"], False),
    "nostd-nodebug": (["--no-default-features", "--features", "graphmap,stable_graph,matrix_graph"], False),
}
QUICK_CONFIGS = ["all"]
THOROUGH_CONFIGS = ["all", "serde", "nostd", "all-nodebug", "serde-nodebug", "nostd-nodebug"]


def tree_hash(config):
    h = hashlib.sha256()
    h.update(config.encode())
    files = []
    for root, dirs, fs in os.walk(os.path.join(REPO, "src")):
        dirs.sort()
        for f in sorted(fs):
            files.append(os.path.join(root, f))
    for f in ("Cargo.toml", "Cargo.lock"):
        files.append(os.path.join(REPO, f))
    for f in files:
        h.update(f.encode())
        try:
            with open(f, "rb") as fh:
                h.update(fh.read())
        except OSError:
            h.update(b"<missing>")
    # the driver binary is part of the key: a rebuilt driver invalidates old facts
    try:
        st = os.stat(DRIVER)
        h.update(("%d-%d" % (st.st_size, int(st.st_mtime))).encode())
    except OSError:
        pass
    return h.hexdigest()[:24]


def sysroot():
    return subprocess.check_output(["rustc", "+nightly", "--print", "sysroot"], text=True).strip()


def ensure_driver():
    if os.path.exists(DRIVER):
        return
    subprocess.check_call(
        ["cargo", "build", "--release", "--offline"], cwd=os.path.join(VERIF, "driver"),
        env=dict(os.environ, CARGO_NET_OFFLINE="true"))


def extract(config="all", verbose=True):
    """Returns (facts_path, cached?, seconds)."""
    ensure_driver()
    os.makedirs(CACHE, exist_ok=True)
    key = tree_hash(config)
    out = os.path.join(CACHE, "facts-%s-%s.json" % (config, key))
    if os.path.exists(out) and os.path.getsize(out) > 1000:
        return out, True, 0.0
    lock = open(os.path.join(CACHE, "lock-%s" % config), "w")
    fcntl.flock(lock, fcntl.LOCK_EX)
    try:
        if os.path.exists(out) and os.path.getsize(out) > 1000:
            return out, True, 0.0
        feats, dbg = CONFIGS[config]
        t0 = time.time()
        tdir = tempfile.mkdtemp(prefix="pgsa-target-")
        tmp_out = out + ".tmp%d" % os.getpid()
        try:
            env = dict(os.environ)
            env["LD_LIBRARY_PATH"] = sysroot() + "/lib:" + env.get("LD_LIBRARY_PATH", "")
            flags = "-Zmir-opt-level=0 -Awarnings"
            if not dbg:
                flags += " -Cdebug-assertions=off"
            env["RUSTFLAGS"] = flags
            env["RUSTC_WORKSPACE_WRAPPER"] = DRIVER
            env["CARGO_TARGET_DIR"] = tdir
            env["CARGO_NET_OFFLINE"] = "true"
            env["PGSA_OUT"] = tmp_out
            env.pop("RUSTC_WRAPPER", None)
            cmd = ["cargo", "+nightly", "check", "--offline", "--lib", "-p", "petgraph"] + feats
            p = subprocess.run(cmd, cwd=REPO, env=env, stdout=subprocess.PIPE, stderr=subprocess.STDOUT, text=True)
            if p.returncode != 0 or not os.path.exists(tmp_out):
                sys.stderr.write(p.stdout[-6000:])
                raise RuntimeError("fact extraction failed for config %s (exit %d): the tree does not compile "
                                   "or the driver did not run" % (config, p.returncode))
            # validate JSON before publishing
            with open(tmp_out) as fh:
                d = json.load(fh)
            if len(d.get("bodies", [])) < 1000:
                raise RuntimeError("fact extraction produced only %d bodies" % len(d.get("bodies", [])))
            os.replace(tmp_out, out)
        finally:
            shutil.rmtree(tdir, ignore_errors=True)
            if os.path.exists(tmp_out):
                os.unlink(tmp_out)
        # prune old cache entries for this config (keep the 3 newest)
        olds = sorted((f for f in os.listdir(CACHE) if f.startswith("facts-%s-" % config) and f.endswith(".json")),
                      key=lambda f: os.path.getmtime(os.path.join(CACHE, f)))
        for f in olds[:-3]:
            try:
                os.unlink(os.path.join(CACHE, f))
            except OSError:
                pass
        dt = time.time() - t0
        if verbose:
            sys.stderr.write("pgsa: extracted config %s in %.1fs -> %s\n" % (config, dt, out))
        return out, False, dt
    finally:
        fcntl.flock(lock, fcntl.LOCK_UN)
        lock.close()


if __name__ == "__main__":
    cfg = sys.argv[1] if len(sys.argv) > 1 else "all"
    print(extract(cfg))
