"""Algorithm-specific structural clauses (added after the second round of independently seeded changes).

Each is a necessary condition of its property that is visible in the shape of the code and keyed on resolved
definitions / field names / dominance - never on text.  Each names the input class on which a violation
manifests.  Unrecognised shapes are silent (counted), anchors that disappear fail closed.
"""
import re

from .core import op_place, op_local, callee_name, last_seg, norm_path, walk_expr
from .report import RuleResult, Violation
from .guard import (Obl, dom_atoms, call_atom, has_call, agg_sites, calls_named, named_roots, roots_named, reach, deep_has_call, deep_leaves)
from .tag import leaves, strip_casts
from .taint import Taint


# ------------------------------------------------------------------------------------------------ C12
def mst_positions(facts):
    o = Obl("GUARD-MSTPOS", "min_spanning_tree / min_spanning_tree_prim: the endpoints of every emitted Element::Edge are positions in the emitted "
                            "node stream, i.e. they are looked up in node_map (which maps to_index(node) -> position), never raw to_index values")
    for sfx in ("«algo::min_spanning_tree::MinSpanningTree as core::iter::Iterator»::next",
                "«algo::min_spanning_tree::MinSpanningTreePrim as core::iter::Iterator»::next"):
        for b in o.need_fn(facts, sfx):
            # node_map must be filled with (to_index(node.id()), running position)
            ins = [(i, t) for i, t in calls_named(b, ("insert",)) if t["args"] and ("field", "node_map") in leaves(b.expr(t["args"][0], 8))]
            okins = any(has_call(b.expr(t["args"][1], 8), ("to_index",)) for i, t in ins) if ins else False
            o.check(b, "node_map-filled", b.line, okins, "node_map.insert(to_index(node.id()), position) while the nodes are emitted",
                    "node_map is not filled with to_index(node) -> stream position while the node elements are emitted")
            n = 0
            for i, j, st in agg_sites(b, "data::Element", "Edge"):
                n += 1
                a = facts.adts["data::Element"]["variants"]
                fields = [f["name"] for v in a if v["name"] == "Edge" for f in v["fields"]]
                for fname in ("source", "target"):
                    k = fields.index(fname)
                    e = b.expr(st["rv"]["o"][k], 12)
                    via_map = any(isinstance(s, tuple) and s[0] == "call" and last_seg(s[1]["path"]) == "get" and "HashMap" in norm_path(s[1]["path"])
                                  and ("field", "node_map") in leaves(s[2][0]) for s in walk_expr(e))
                    o.check(b, "edge#%d.%s" % (n, fname), st["line"], via_map, "%s = *node_map.get(&to_index(..))" % fname,
                            "Element::Edge.%s does not come from a node_map lookup: on a graph whose node indices are not the iteration "
                            "positions (StableGraph with a vacancy, NodeFiltered) the edge refers to the wrong or a non-existent element" % fname)
            o.check(b, "edges", b.line, n >= 1, "%d edge emission(s)" % n, "no Element::Edge emission found")
            # Prim: everything entered into / tested against nodes_taken is a to_index value
            m = 0
            for i, t in b.calls():
                if last_seg(t["f"]["path"]) in ("insert", "contains") and t["args"] and ("field", "nodes_taken") in leaves(b.expr(t["args"][0], 8)) and len(t["args"]) > 1:
                    m += 1
                    e = b.expr(t["args"][1], 10)
                    o.check(b, "nodes_taken.%s#%d" % (last_seg(t["f"]["path"]), m), t["line"], has_call(e, ("to_index",)),
                            "keyed by to_index(node)", "nodes_taken is keyed by a value that is not to_index(node): on a graph whose first node's index "
                                                       "is not that value (vacant slot 0, NodeFiltered) the start node is never marked taken")
    o.r.floor = 8
    return o.r


# ------------------------------------------------------------------------------------------------ C20
def simple_paths(facts):
    o = Obl("GUARD-SIMPLEPATH", "all_simple_paths never puts the target node on the path under construction: the push of a child onto `visited` / the "
                                "stack is dominated by child != to (the target can only end a path)")
    for root in o.need_fn(facts, "algo::simple_paths::all_simple_paths"):
        n = 0
        for b in facts.with_closures(root):
            for i, t in b.calls():
                if last_seg(t["f"]["path"]) != "insert" or "IndexSet" not in norm_path(t["f"]["path"]) or len(t["args"]) < 2:
                    continue
                child = named_roots(b, t["args"][1])
                n += 1
                ok = False
                for (e, truth, src) in dom_atoms(b, i, named_leaf=True):
                    if isinstance(e, tuple) and e[0] == "bin" and e[1] == "Ne" and truth is True:
                        r1, r2 = roots_named(b, e[2]), roots_named(b, e[3])
                        other = r2 if (r1 & child) else (r1 if (r2 & child) else None)
                        if other is not None and not (other & child):
                            ok = True
                o.check(b, "visited.insert#%d" % n, t["line"], ok, "child pushed onto the path only under child != to",
                        "a child is pushed onto the path without `child != to` dominating the push: when the target is reached below the minimum "
                        "length it becomes an intermediate node and paths containing it twice are produced")
        o.check(root, "pushes", root.line, n >= 1, "%d path push site(s)" % n, "visited.insert site not found")
    o.r.floor = 2
    return o.r


# ------------------------------------------------------------------------------------------------ C16
def lowlink(facts):
    o = Obl("GUARD-LOWLINK", "articulation_points low-link rule: across an edge to an already visited non-parent vertex low[u] is lowered by disc[v], "
                             "after a child has been finished by low[child]; the cut test compares low[child] with disc[u]")
    for b in o.need_fn(facts, "algo::articulation_points::_dfs"):
        n = 0
        # every update of low[..]: a store through IndexMut::index_mut(&mut tracker.low, u) whose value comes from low[] / disc[] - written as
        # low[u] = min(low[u], x) or as `if x < low[u] { low[u] = x }`
        for i, t in calls_named(b, ("index_mut",)):
            if not t["args"] or ("field", "low") not in leaves(b.expr(t["args"][0], 8)) or t["dest"]["p"]:
                continue
            d = t["dest"]["l"]
            # the slot reference may be kept in a named local (`let slot = &mut tracker.low[u];`) or reborrowed
            slot_locals = {d}
            grew = True
            while grew:
                grew = False
                for i2, j2, st in b.stmts():
                    rv = st["rv"]
                    if st["lhs"]["p"] or st["lhs"]["l"] in slot_locals:
                        continue
                    if (rv["k"] == "use" and op_local(rv["o"][0]) in slot_locals and not op_place(rv["o"][0])["p"]) or \
                            (rv["k"] == "ref" and rv["pl"]["l"] in slot_locals and rv["pl"]["p"] == ["*"]):
                        slot_locals.add(st["lhs"]["l"])
                        grew = True
            vals = []
            for i2, j2, st in b.stmts():
                if st["lhs"]["l"] in slot_locals and st["lhs"]["p"] == ["*"] and st["rv"]["k"] == "use":
                    vals.append((i2, st, b.expr(st["rv"]["o"][0], 12)))
            for (i2, st, e) in vals:
                arrs = sorted({x[1] for x in leaves(e) if x[0] == "field" and x[1] in ("low", "disc")})
                if not arrs:
                    continue            # the initial low[u] = time
                src = "disc" if "disc" in arrs else "low"
                n += 1
                visited_true = False
                for (ae, truth, s_) in dom_atoms(b, i2):
                    c = call_atom(ae, ("contains",))
                    if c is not None and truth is True:
                        visited_true = True
                if visited_true:
                    o.check(b, "back-edge", st["line"], src == "disc", "visited non-parent neighbour: low[u] lowered by disc[v]",
                            "on an edge to an already visited vertex low[u] is lowered by %s[v] instead of disc[v]: low values leak across blocks and "
                            "cut vertices lying on a cycle are missed" % src)
                else:
                    o.check(b, "tree-edge-return", st["line"], src == "low", "finished child: low[u] lowered by low[child]",
                            "after finishing a child low[u] is lowered by %s[child] instead of low[child]" % src)
        o.check(b, "updates", b.line, n >= 2, "%d low-link updates" % n, "expected 2 low-link updates (back edge, finished child), found %d" % n)
    o.r.floor = 3
    return o.r


# ------------------------------------------------------------------------------------------------ C10
def kshortest_unfiltered(facts):
    o = Obl("GUARD-KSP", "k_shortest_path counts walks with repeated vertices: every out-edge of a popped node is relaxed - the heap push in the edge "
                         "loop is not filtered by any test on the edge's endpoints or on a visited set")
    for b in o.need_fn(facts, "algo::k_shortest_path::k_shortest_path"):
        n = 0
        for i, t in calls_named(b, ("push",)):
            if "BinaryHeap" not in norm_path(t["f"]["path"]):
                continue
            atoms = dom_atoms(b, i)
            if not atoms:
                continue     # the initial push of the start node
            n += 1
            bad = []
            edge_vars = {x for x in named_roots(b, t["args"][1]) if x[0] == "local" and b.lname(x[1]) in ("edge", "next", "next_score")}
            for (e, truth, src) in dom_atoms(b, i, named_leaf=True):
                if has_call(e, ("target", "source", "is_visited", "contains", "visit")) or ({x for x in leaves(e) if x[0] == "local"} & edge_vars):
                    bad.append(b.blocks[src]["term"]["line"])
            o.check(b, "relax#%d" % n, t["line"], not bad, "relaxation is unconditional on the edge's endpoints",
                    "the relaxation of an out-edge is filtered by a test on its endpoints / a visited set (line %s): walks that revisit a vertex "
                    "(e.g. through a self-loop) are lost and the k-th cost comes out too large or missing" % bad)
        # the same loop written as `graph.edges(node).for_each(|edge| heap.push(..))`: the closure body is the loop body
        for cb in facts.with_closures(b):
            if cb is b:
                continue
            pushes = [i for i, t in cb.calls() if last_seg(t["f"]["path"]) == "push" and "BinaryHeap" in norm_path(t["f"]["path"])]
            if not pushes:
                continue
            users = [(i, t) for i, t in b.calls() if last_seg(t["f"]["path"]) in ("for_each", "try_for_each", "fold") and
                     any(isinstance(s_, tuple) and s_[0] == "agg" and len(s_) > 1 and s_[1] == cb.path for a_ in t["args"] for s_ in walk_expr(b.expr(a_, 6)))]
            if not users:
                continue
            n += 1
            rets = {i for i, bl in enumerate(cb.blocks) if bl["term"]["k"] == "return" and not bl["cleanup"]}
            skips = bool(reach(cb, 0, avoid=set(pushes)) & rets)
            filt = [last_seg(s_[1]["path"]) for (ui, ut) in users for s_ in walk_expr(b.expr(ut["args"][0], 10))
                    if isinstance(s_, tuple) and s_[0] == "call" and last_seg(s_[1]["path"]) in ("filter", "filter_map", "skip", "skip_while", "take", "take_while", "step_by")]
            o.check(cb, "relax#%d" % n, cb.line, not skips and not filt, "the closure handed to for_each pushes on every path and the edge iterator is unfiltered",
                    "the relaxation of an out-edge is %s: walks that revisit a vertex are lost and the k-th cost comes out too large or missing" %
                    ("filtered by %s" % filt[:2] if filt else "skipped on some path through the closure"))
        o.check(b, "relaxations", b.line, n >= 1, "%d relaxation push site(s)" % n, "relaxation push not found")
        # every iteration of the edge loop reaches the push (no path from the loop body back to the loop head avoids it)
        succ = b.cfg()[0]
        for i, t in calls_named(b, ("push",)):
            if "BinaryHeap" not in norm_path(t["f"]["path"]) or not dom_atoms(b, i):
                continue
            heads = [h for h, th in b.calls() if last_seg(th["f"]["path"]) == "next" and i in reach(b, h) and h in reach(b, i)
                     and "Edges" in th["f"].get("self", "") + str(th["f"].get("targs", ""))]
            if not heads:
                heads = [h for h, th in b.calls() if last_seg(th["f"]["path"]) == "next" and i in reach(b, h) and h in reach(b, i)]
            # innermost loop head: the one closest to the push
            heads.sort(key=lambda h: len(reach(b, h)))
            for h in heads[:1]:
                sw = succ[h][0] if succ[h] else None
                body = None
                if sw is not None and b.blocks[sw]["term"]["k"] == "switch":
                    for (v, tgt) in b.switch_edges(sw):
                        if v == 1:
                            body = tgt
                if body is None:
                    continue
                skips = h in reach(b, body, avoid={i})
                o.check(b, "every-edge-relaxed", t["line"], not skips, "no path through the edge-loop body avoids the heap push",
                        "some path through the body of the edge loop returns to the loop head without pushing the edge's target: k_shortest_path "
                        "counts walks with repeated vertices, so pruning any relaxation (zero-cost cycle, self-loop, already popped target) loses "
                        "the k-th walk")
    o.r.floor = 2
    return o.r


# ------------------------------------------------------------------------------------------------ C19 / C09
def labeling(facts):
    o = Obl("FLOW-LABELING", "UnionFind::into_labeling: every element ix of the returned vector is assigned the value of a find on it (path halving "
                             "alone leaves deep elements pointing at a non-root ancestor)")
    for b in o.need_fn(facts, "unionfind::UnionFind::into_labeling"):
        finds = [(i, t) for i, t in b.calls() if last_seg(callee_name(t["f"])) in ("find_mut_recursive", "find_mut", "find", "try_find", "try_find_mut")]
        o.check(b, "find", b.line, bool(finds), "%d find call(s)" % len(finds), "into_labeling performs no find")
        stored = False
        for i, j, st in b.stmts():
            lhs = st["lhs"]
            if lhs["p"] and lhs["p"][0] == "*" and st["rv"]["k"] == "use":
                base = b.local_expr(lhs["l"], 10)
                is_parent = ("field", "parent") in leaves(base)
                val = b.expr(st["rv"]["o"][0], 8)
                from_find = any(isinstance(s, tuple) and s[0] == "call" and last_seg(callee_name(s[1])).startswith(("find", "try_find")) for s in walk_expr(val))
                if is_parent and from_find:
                    stored = True
        o.check(b, "write-back", b.line, stored, "parent[ix] = <result of find> for the loop variable ix",
                "into_labeling does not store the representative found for each element back into the labeling: an element at depth >= 3 "
                "(8-element class built by balanced merges, chain towards larger indices) keeps a non-root label")
    o.r.floor = 2
    return o.r


# ------------------------------------------------------------------------------------------------ C14
class MapKeyTaint(Taint):
    def source_call(self, b, blk, t):
        f = t["f"]
        np_ = norm_path(f["path"])
        if last_seg(np_) == "len" and ("BTreeMap" in np_ or "HashMap" in np_ or "IndexMap" in np_) and t["args"]:
            e = b.expr(t["args"][0], 8)
            fs = sorted(x[1] for x in leaves(e) if x[0] == "field")
            if fs:
                return {("MAPLEN", fs[-1])}
        return set()


def map_len_as_key(facts):
    r = RuleResult("DIM-MAPKEY", "the number of entries of a map never becomes a key of that same map (a cardinality is not a fresh key once entries "
                                 "can be removed: OrderMap.pos_to_node after remove_node)")
    n = 0
    for root in facts.bodies:
        if root.kind not in ("Fn", "AssocFn") or not root.file.startswith("src/acyclic"):
            continue
        tt = MapKeyTaint(facts)
        for b in tt.run_group(root):
            st = tt.state[b.path]
            for i, t in b.calls():
                np_ = norm_path(t["f"]["path"])
                if last_seg(np_) not in ("insert", "entry") or not ("BTreeMap" in np_ or "HashMap" in np_) or len(t["args"]) < 2:
                    continue
                e = b.expr(t["args"][0], 8)
                fs = sorted(x[1] for x in leaves(e) if x[0] == "field")
                if not fs:
                    continue
                n += 1
                tags = tt.tags_of_op(b, st, t["args"][1])
                hit = [x for x in tags if x[0] == "MAPLEN" and x[1] == fs[-1]]
                site = "%s.insert#%d" % (fs[-1], n)
                if hit:
                    r.bad(Violation("DIM-MAPKEY", b.npath, "%s.insert<-len" % fs[-1], b.file, t["line"],
                                    "%s.len() is used as a key of %s: after an entry below the maximum key has been removed, len() names a key that "
                                    "is still occupied, so a live entry is overwritten (Acyclic: remove a node, then add_node)" % (fs[-1], fs[-1])))
                else:
                    r.ok(b.npath, site, "key does not derive from the map's own len()")
    r.floor = 2
    return r


# ------------------------------------------------------------------------------------------------ C02 / C17
def freelist_backlinks(facts):
    o = Obl("TAG-FREELIST", "StableGraph's vacant nodes form a DOUBLY linked free list: every function that pushes a node onto it (writes "
                            "slot.next = [old_head, end] and makes the slot the new head) also writes the old head's back link next[1]")
    n = 0
    for b in facts.bodies:
        if b.file != "src/graph_impl/stable_graph/mod.rs" or b.kind not in ("AssocFn", "Fn"):
            continue
        pushes = []
        backlinks = []
        for i, j, st in b.stmts():
            lhs = st["lhs"]
            fs = [x for x in lhs["p"] if isinstance(x, dict) and "f" in x]
            if not fs or fs[-1].get("n") != "next" or fs[-1].get("a") != "graph_impl::Node":
                continue
            tail = lhs["p"][lhs["p"].index(fs[-1]) + 1:]
            if not tail and st["rv"]["k"] in ("use", "agg"):
                if st["rv"]["k"] == "use":
                    e = b.expr(st["rv"]["o"][0], 8, named_leaf=True)
                else:
                    e = ("agg", "", "", [b.expr(x, 8, named_leaf=True) for x in st["rv"]["o"]])
                if e[0] == "agg" and len(e[3]) == 2:
                    first = e[3][0]
                    names = {b.lname(x[1]) for x in leaves(first) if x[0] in ("local", "arg")} | {x[1] for x in leaves(first) if x[0] == "field"}
                    if "free_node" in names and has_call(first, ("_into_edge",)):
                        pushes.append((i, st))
            elif tail and isinstance(tail[0], dict) and "ix" in tail[0]:
                ie = b.local_expr(tail[0]["ix"], 4)
                if ie[0] == "const" and ie[1] == "1":
                    base = b.local_expr(lhs["l"], 10)
                    names = {x[1] for x in leaves(base) if x[0] == "field"}
                    for s_ in walk_expr(base):
                        if isinstance(s_, tuple) and s_[0] == "call" and len(s_[2]) >= 2 and last_seg(s_[1]["path"]) in ("index_mut", "index", "get_mut"):
                            ie2 = b.expr(b.blocks[s_[3]]["term"]["args"][1], 8, named_leaf=True)
                            names |= {b.lname(x[1]) for x in leaves(ie2) if x[0] in ("local", "arg")} | {x[1] for x in leaves(ie2) if x[0] == "field"}
                    if "free_node" in names:
                        backlinks.append((i, st))
        if not pushes:
            continue
        n += 1
        o.check(b, "push-with-backlink", pushes[0][1]["line"], bool(backlinks), "pushes onto the free-node list and writes the old head's next[1]",
                "a node is pushed onto the free-node list (next = [old_head, end]) but the old head's back link next[1] is never written: "
                "occupy_vacant_node of a non-head vacancy (extend_with_edges naming a vacant index) then fails to unlink it and a later "
                "add_node hands out a live index")
    o.check(facts.bodies[0], "push-sites", 0, n >= 3, "", "expected >= 3 functions pushing onto the free-node list (add_vacant_node, remove_node, "
                                                             "link_edges), found %d" % n) if n < 2 else o.r.ok("stable_graph", "push-sites", "%d functions push onto the free-node list" % n)
    o.r.floor = 3
    return o.r


# ------------------------------------------------------------------------------------------------ C15
def residual_bfs(facts):
    o = Obl("GUARD-RESIDUAL", "ford_fulkerson: the residual BFS walks the chained out- and in-edges of a vertex, so the vertex it moves to is the edge's "
                              "OTHER endpoint (other_endpoint(network, edge, vertex)) - for an in-edge edge.target() is the vertex itself and the "
                              "backward residual edge would never be traversed (no flow cancellation => non-maximum flow)")
    for b in o.need_fn(facts, "algo::ford_fulkerson::has_augmented_path"):
        chained = any(last_seg(t["f"]["path"]) == "chain" for _, t in b.calls())
        o.check(b, "out-and-in", b.line, chained, "iterates out_edges.chain(in_edges)", "the BFS no longer iterates both the outgoing and the incoming edges")
        n = 0
        for i, t in calls_named(b, ("push_back",)):
            if not dom_atoms(b, i):
                continue      # the initial push of the source
            n += 1
            e = b.expr(t["args"][1], 10)
            via = any(isinstance(s, tuple) and s[0] == "call" and callee_name(s[1]).endswith("ford_fulkerson::other_endpoint") for s in walk_expr(e))
            o.check(b, "enqueue#%d" % n, t["line"], via, "the enqueued vertex is other_endpoint(network, edge, vertex)",
                    "the vertex enqueued by the residual BFS does not come from other_endpoint(..): for incoming edges the traversal stays at "
                    "the same vertex, backward residual edges are never used and the returned flow can be below the maximum")
        o.check(b, "enqueues", b.line, n >= 1, "%d enqueue site(s)" % n, "BFS enqueue not found")
    o.r.floor = 3
    return o.r


# ------------------------------------------------------------------------------------------------ reset / clear completeness
RESET_FUNCS = {
    # npath: (adt, fields that need not be touched, reason)
    "visit::traversal::Dfs::reset": ("visit::traversal::Dfs", ()),
    "visit::traversal::DfsPostOrder::reset": ("visit::traversal::DfsPostOrder", ()),
    "visit::traversal::Topo::reset": ("visit::traversal::Topo", ()),
    "graph_impl::Graph::clear": ("graph_impl::Graph", ("ty",)),
    "graph_impl::stable_graph::StableGraph::clear": ("graph_impl::stable_graph::StableGraph", ()),
    "matrix_graph::MatrixGraph::clear": ("matrix_graph::MatrixGraph", ("node_capacity", "ty", "ix")),
    "graphmap::GraphMap::clear": ("graphmap::GraphMap", ("ty",)),
}


def reset_complete(facts):
    r = RuleResult("RESET-ALL", "a reset()/clear() method re-initialises every state field of its struct (each field is stored to, or passed by &mut to a "
                                "clearing call): state left behind from the previous use changes the next answer (e.g. a DfsSpace reused after an "
                                "early-exit traversal)")
    for fn, (adt, skip) in RESET_FUNCS.items():
        bs = [b for b in facts.bodies if b.npath == fn]
        a = facts.adts.get(adt)
        if not bs or not a:
            r.bad(Violation("RESET-ALL", fn, "anchor-missing", "-", 0, "%s or its struct %s not found - fail closed" % (fn, adt)))
            continue
        b = bs[0]
        fields = [f["name"] for f in a["variants"][0]["fields"] if not f["ty"].startswith("core::marker::PhantomData")]
        touched = set()
        for i, j, st in b.stmts():
            for x in st["lhs"]["p"]:
                if isinstance(x, dict) and x.get("a") == adt:
                    touched.add(x.get("n"))
            rv = st["rv"]
            if rv["k"] in ("ref", "rawptr") and rv.get("mut"):
                for x in rv["pl"]["p"]:
                    if isinstance(x, dict) and x.get("a") == adt:
                        touched.add(x.get("n"))
        missing = [f for f in fields if f not in touched and f not in skip]
        if missing:
            r.bad(Violation("RESET-ALL", b.npath, "fields", b.file, b.line,
                            "%s does not re-initialise the field(s) %s of %s (touched: %s)" % (last_seg(fn), missing, adt.split("::")[-1], sorted(touched))))
        else:
            r.ok(b.npath, "fields", "touches %s%s" % (sorted(touched), (" (not required: %s)" % list(skip)) if skip else ""))
    r.floor = 6
    return r


# ------------------------------------------------------------------------------------------------ C17: untrusted allocation size
class HintTaint(Taint):
    def source_call(self, b, blk, t):
        np_ = norm_path(t["f"]["path"])
        if last_seg(np_) == "size_hint" and ("SeqAccess" in np_ or "MapAccess" in np_ or "serde" in np_):
            return {("UNTRUSTED_LEN", "")}
        return set()

    def passthrough(self, b, t):
        nm = last_seg(t["f"]["path"])
        if nm in ("min", "cautious", "clamp"):
            return False      # capped
        return super().passthrough(b, t)


def untrusted_alloc(facts):
    r = RuleResult("WIRE-ALLOC", "no allocation in the deserialisation code is sized by a length that comes from the input stream (SeqAccess::size_hint) "
                                 "without a cap: a corrupted bincode length prefix would abort or panic instead of giving an error")
    n = 0
    for root in facts.bodies:
        if root.kind not in ("Fn", "AssocFn") or not (root.file.endswith("serde_utils.rs") or root.file.endswith("serialization.rs")):
            continue
        tt = HintTaint(facts)
        for b in tt.run_group(root):
            st = tt.state[b.path]
            for i, t in b.calls():
                nm = last_seg(t["f"]["path"])
                if nm in ("with_capacity", "reserve", "reserve_exact", "from_elem", "resize", "with_capacity_and_hasher"):
                    n += 1
                    bad = [a for a in t["args"] if any(x[0] == "UNTRUSTED_LEN" for x in tt.tags_of_op(b, st, a))]
                    if bad:
                        r.bad(Violation("WIRE-ALLOC", b.npath, "%s<-size_hint" % nm, b.file, t["line"],
                                        "%s is sized by SeqAccess::size_hint(), i.e. by a length prefix read from the (possibly corrupted) input" % nm))
                    else:
                        r.ok(b.npath, "%s#%d" % (nm, n), "allocation size does not derive from an input-provided length")
            for i, t in b.calls():
                if last_seg(t["f"]["path"]) == "size_hint" and "serde" in norm_path(t["f"]["path"]):
                    r.ok(b.npath, "size_hint-use", "size_hint consulted (no unbounded allocation from it)")
    if not r.instances:
        r.ok("serde_utils", "no-alloc", "the deserialisation code performs no pre-sized allocation at all")
    r.floor = 1
    return r


# ------------------------------------------------------------------------------------------------ C11: negative cycle reconstruction
def negative_cycle_suffix(facts):
    o = Obl("GUARD-NEGCYCLE", "find_negative_cycle keeps the part of the predecessor walk from the first repeated node onwards: the position of that node "
                              "is used as the START of the kept range (path[pos..]) or the end of a drained prefix, never as a number of elements to cut "
                              "off the end")
    for b in o.need_fn(facts, "algo::bellman_ford::find_negative_cycle"):
        pos_calls = [(i, t) for i, t in b.calls() if last_seg(t["f"]["path"]) == "position"]
        o.check(b, "position", b.line, bool(pos_calls), "position of the repeated node is computed", "no Iterator::position call found")
        ok = False
        bad = None
        for i, j, st in b.stmts():
            rv = st["rv"]
            if rv["k"] == "agg" and rv["ak"] == "adt" and rv["name"].startswith("core::ops::Range") and rv["o"]:
                e0 = b.expr(rv["o"][0], 8)
                if has_call(e0, ("position",)) and rv["name"] in ("core::ops::Range", "core::ops::RangeFrom"):
                    ok = True
                if rv["name"] == "core::ops::RangeTo" and has_call(e0, ("position",)):
                    ok = True
        for i, t in b.calls():
            if last_seg(t["f"]["path"]) in ("truncate", "split_off", "resize") and len(t["args"]) >= 2 and has_call(b.expr(t["args"][1], 8), ("position",)):
                bad = t["line"]
        o.check(b, "suffix-kept", bad or b.line, ok and bad is None, "the walk is cut with path[pos..] (prefix before the repeated node dropped)",
                "the position of the first repeated node is not used as the start of the kept range%s: with a lead-in of >= 2 off-cycle nodes the "
                "returned sequence keeps the lead-in and loses part of the cycle" % (" (it sizes a truncate at line %d)" % bad if bad else ""))
    o.r.floor = 2
    return o.r


# ------------------------------------------------------------------------------------------------ round-4 generalisations
def id_storage(facts):
    o = Obl("FLOW-IDSTORAGE", "MatrixGraph's IdStorage: the element vector changes length only on the fresh-id path of add() (a reused id must not "
                              "resize/truncate it), and remove() shrinks upper_bound by at most one step (ids recorded in removed_ids stay below it)")
    for b in o.need_fn(facts, "matrix_graph::IdStorage::add"):
        n = 0
        for i, t in b.calls():
            nm = last_seg(callee_name(t["f"]))
            if nm in ("ensure_len", "resize", "resize_with", "truncate", "set_len") and t["args"] and ("field", "elements") in leaves(b.expr(t["args"][0], 8)):
                n += 1
                fresh = False
                for (e, lab, src) in dom_atoms(b, i):
                    if isinstance(e, tuple) and e[0] == "discr" and has_call(e, ("pop",)) and lab == 0:
                        fresh = True
                o.check(b, "resize#%d" % n, t["line"], fresh, "length change only when removed_ids.pop() returned None (fresh id)",
                        "the element vector is resized on the id-reuse path: resize_with(id + 1) TRUNCATES it when a freed id below the highest "
                        "live id is reused, dropping the weights of every node above it")
        # .. or inside the closure of `removed_ids.pop().unwrap_or_else(|| { fresh id })`: that closure runs exactly when pop() returned None
        for cb in facts.with_closures(b)[1:]:
            for i, t in cb.calls():
                nm = last_seg(callee_name(t["f"]))
                if nm not in ("ensure_len", "resize", "resize_with", "truncate", "set_len") or not t["args"]:
                    continue
                ae = cb.expr(t["args"][0], 8)
                hit = ("field", "elements") in leaves(ae)
                # a captured place: upvar k of the closure = operand k of the closure aggregate in the parent
                ups = {x[1] for s_ in walk_expr(ae) if isinstance(s_, tuple) and s_[0] == "place" and s_[1] == ("arg", 1)
                       for x in s_[2] if isinstance(x, tuple) and x[0] == "f"}
                for _, _, pst in b.stmts():
                    prv = pst["rv"]
                    if prv["k"] == "agg" and prv.get("ak") == "closure" and prv["name"] == cb.path:
                        for k_ in ups:
                            if k_ < len(prv["o"]) and ("field", "elements") in leaves(b.expr(prv["o"][k_], 8)):
                                hit = True
                if hit:
                    n += 1
                    fresh = False
                    for i2, t2 in b.calls():
                        if last_seg(t2["f"]["path"]) in ("unwrap_or_else", "or_else", "map_or_else", "ok_or_else") and len(t2["args"]) >= 2:
                            ce = strip_casts(b.expr(t2["args"][1], 3))
                            if isinstance(ce, tuple) and ce[0] == "agg" and ce[1] == cb.path and has_call(b.expr(t2["args"][0], 8), ("pop",)):
                                fresh = True
                    o.check(b, "resize#%d" % n, t["line"], fresh, "length change only in the `pop() returned None` closure (fresh id)",
                            "the element vector is resized in a closure that is not the None-path of removed_ids.pop()")
        o.check(b, "resizes", b.line, n >= 1, "%d resize site(s)" % n, "no resize of `elements` found in IdStorage::add")
    for b in o.need_fn(facts, "matrix_graph::IdStorage::remove"):
        succ = b.cfg()[0]
        n = 0
        for i, j, st in b.stmts():
            fs = [x for x in st["lhs"]["p"] if isinstance(x, dict) and "f" in x]
            if fs and fs[-1].get("n") == "upper_bound":
                n += 1
                inloop = i in reach(b, succ[i][0]) if succ[i] else False
                o.check(b, "upper_bound-store#%d" % n, st["line"], not inloop, "upper_bound is lowered once, not in a loop",
                        "upper_bound is lowered in a loop past ids that are still recorded in removed_ids: add() later hands out an id >= "
                        "upper_bound, i.e. a live node outside node_bound() and node_identifiers()")
        o.check(b, "stores", b.line, n >= 1, "%d upper_bound store(s)" % n, "no upper_bound store found")
    o.r.floor = 4
    return o.r


def workspace_reset(facts):
    o = Obl("GUARD-WORKSPACE", "an algorithm that pushes directly onto the work stack of a caller-provided Dfs workspace first clears it (Dfs::reset / "
                               "move_to / stack.clear dominate the first push): a DfsSpace reused after an early-exit traversal still holds nodes")
    n = 0
    for root in facts.bodies:
        if root.kind not in ("Fn", "AssocFn") or root.file != "src/algo/mod.rs":
            continue
        for b in facts.with_closures(root):
            for i, t in b.calls():
                if last_seg(t["f"]["path"]) != "push" or not t["args"]:
                    continue
                e = b.expr(t["args"][0], 8)
                fs = [x for s in walk_expr(e) if isinstance(s, tuple) and s[0] == "place" for x in s[2] if isinstance(x, tuple) and x[0] == "f"]
                if not any(x[2] == "stack" and x[3] == "visit::traversal::Dfs" for x in fs):
                    continue
                n += 1
                cleared = [k for k, t2 in b.calls() if (callee_name(t2["f"]).endswith("traversal::Dfs::reset") or callee_name(t2["f"]).endswith("traversal::Dfs::move_to")
                                                        or (last_seg(t2["f"]["path"]) == "clear" and t2["args"] and "stack" in str(b.expr(t2["args"][0], 6))))
                           and b.dominates(k, i)]
                o.check(b, "stack.push#%d" % n, t["line"], bool(cleared), "dominated by Dfs::reset / move_to / stack.clear",
                        "a node is pushed onto the workspace's stack without a dominating Dfs::reset/move_to/clear: stale entries from a previous "
                        "early-exit use of the same DfsSpace become extra roots (nodes of another graph in the result, or a panic)")
    o.check(facts.bodies[0], "sites", 0, n >= 1, "", "no direct push onto a Dfs workspace stack found in algo/mod.rs") if n < 1 else o.r.ok("algo", "sites", "%d direct stack pushes" % n)
    o.r.floor = 2
    return o.r


def spfa_dequeue(facts):
    o = Obl("GUARD-SPFA", "spfa marks the popped vertex as dequeued (in_queue[i] = false) BEFORE scanning its edges: every re-queue test in the edge loop is "
                          "dominated by that store, so a vertex that relaxes itself (negative self-loop) is queued again")
    for b in o.need_fn(facts, "algo::spfa::spfa"):
        stores = []
        for i, j, st in b.stmts():
            lhs = st["lhs"]
            if lhs["p"] and lhs["p"][0] == "*" and st["rv"]["k"] == "use" and st["rv"]["o"][0].get("const") in ("0", "false") and st["rv"]["o"][0].get("ty") == "bool":
                base = b.local_expr(lhs["l"], 8, named_leaf=True)
                if any(x[0] == "local" and "bool" in b.lty(x[1]) for x in leaves(base)):
                    stores.append(i)
        # the same mark on a bit set / hash set: set(i, false), remove(i)
        for i, t in b.calls():
            np_ = norm_path(t["f"]["path"])
            if not np_.startswith(("fixedbitset::FixedBitSet", "std::collections::HashSet", "hashbrown::HashSet", "alloc::collections::BTreeSet", "std::collections::hash::set::HashSet",
                                   "alloc::collections::btree::set::BTreeSet", "hashbrown::set::HashSet")):
                continue
            nm = last_seg(np_)
            if nm == "remove" or (nm == "set" and len(t["args"]) >= 3 and t["args"][2].get("const") in ("0", "false")):
                stores.append(i)
        o.check(b, "dequeue-store", b.line, bool(stores), "in_queue[i] = false found", "no `in_queue[..] = false` store found")
        n = 0
        # the work list: the container that is popped (any end) - identified by the pop, not by its name
        worklists = set()
        for i, t in calls_named(b, ("pop", "pop_front", "pop_back")):
            if norm_path(t["f"]["path"]).startswith(("alloc::vec::Vec", "alloc::collections::VecDeque")):
                worklists |= {x for x in leaves(b.expr(t["args"][0], 6, named_leaf=True)) if x[0] == "local"}
        for i, t in calls_named(b, ("push", "push_back", "push_front")):
            if not norm_path(t["f"]["path"]).startswith(("alloc::vec::Vec", "alloc::collections::VecDeque")) or not dom_atoms(b, i):
                continue
            e = b.expr(t["args"][0], 6, named_leaf=True)
            if not ({x for x in leaves(e) if x[0] == "local"} & worklists):
                continue
            if len(b.dominating_edges(i)) < 2:
                continue
            n += 1
            ok = any(b.dominates(s_, i) and s_ != i for s_ in stores)
            o.check(b, "requeue#%d" % n, t["line"], ok, "the re-queue is dominated by the dequeue mark of the popped vertex",
                    "a vertex is (re-)queued in the edge loop before the popped vertex was marked dequeued: a vertex relaxing itself through a "
                    "negative self-loop is never queued again and the negative cycle goes unreported")
        o.check(b, "requeues", b.line, n >= 1, "%d re-queue site(s)" % n, "re-queue push not found")
    o.r.floor = 3
    return o.r


def slice_names(b, op, limit=60):
    """names of the user variables in the backward slice of an operand (through statements and call arguments)"""
    seen, out = set(), set()

    def item(o_):
        """(local, first field index of the projection or None)"""
        pl = op_place(o_)
        if pl is None:
            return None
        fld = next((x["f"] for x in pl["p"] if isinstance(x, dict) and "f" in x and "n" not in x), None)
        return (pl["l"], fld)
    work = [item(op)] if item(op) is not None else []
    while work and len(seen) < limit:
        it = work.pop()
        if it is None or it in seen:
            continue
        seen.add(it)
        l, fld = it
        if b.lname(l):
            out.add(b.lname(l))
        for d in b.defs().get(l, []):
            if d[0] in ("st", "pst"):
                rv = b.blocks[d[1]]["st"][d[2]]["rv"]
                ops = rv.get("o", [])
                if rv["k"] == "agg" and rv.get("ak") == "tuple" and fld is not None and fld < len(ops):
                    ops = [ops[fld]]            # (a, b).0 depends on a only
                for o_ in ops:
                    if item(o_) is not None:
                        work.append(item(o_))
                if "pl" in rv:
                    work.append((rv["pl"]["l"], None))
            elif d[0] == "call":
                for a in b.blocks[d[1]]["term"]["args"]:
                    if item(a) is not None:
                        work.append(item(a))
    return out


def from_elements_orientation(facts):
    o = Obl("FLOW-ELEMENTS", "FromElements keeps the orientation of every Element::Edge: the first endpoint handed to add_edge derives from `source` only and "
                             "the second from `target` only")
    for root in o.need_fn(facts, "data::from_elements_indexable"):
        n = 0
        for b in facts.with_closures(root):
            for i, t in b.calls():
                if last_seg(t["f"]["path"]) != "add_edge" or len(t["args"]) < 3:
                    continue
                n += 1
                def names(op):
                    return slice_names(b, op)
                a, c = names(t["args"][1]), names(t["args"][2])
                ok = "source" in a and "target" not in a and "target" in c and "source" not in c
                o.check(b, "add_edge#%d" % n, t["line"], ok, "add_edge(from <- source, to <- target)",
                        "the endpoints given to add_edge derive from %s / %s instead of source / target: a directed graph rebuilt from the element "
                        "stream gets edges that do not exist in the original" % (sorted(a & {"source", "target"}), sorted(c & {"source", "target"})))
        o.check(root, "sites", root.line, n >= 1, "%d add_edge site(s)" % n, "add_edge call not found")
    o.r.floor = 2
    return o.r


def ordermap_growth(facts):
    o = Obl("DIM-ORDERMAP", "OrderMap.node_to_pos is indexed by to_index(node): it grows only by resize(node_bound()), never by push (its length is an "
                            "index bound, not a count)")
    pushes = []
    resizes = []
    for b in facts.bodies:
        if not b.file.startswith("src/acyclic/order_map") or b.kind not in ("Fn", "AssocFn", "Closure"):
            continue
        for i, t in b.calls():
            nm = last_seg(t["f"]["path"])
            if nm in ("push", "insert", "extend", "resize", "resize_with") and t["args"] and norm_path(t["f"]["path"]).startswith("alloc::vec::Vec") \
                    and ("field", "node_to_pos") in leaves(b.expr(t["args"][0], 8)):
                (pushes if nm in ("push", "insert", "extend") else resizes).append((b, t))
    for (b, t) in pushes:
        o.r.bad(Violation("DIM-ORDERMAP", b.npath, "node_to_pos.%s" % last_seg(t["f"]["path"]), b.file, t["line"],
                          "node_to_pos grows by %s: after try_from on a StableGraph with trailing vacancies the next fresh index is not len(), so the "
                          "position lands in the wrong slot" % last_seg(t["f"]["path"])))
    okb = False
    for (b, t) in resizes:
        e = b.expr(t["args"][1], 8)
        if has_call(e, ("node_bound",)):
            okb = True
            o.r.ok(b.npath, "node_to_pos.resize", "resized to node_bound()")
    if not okb:
        anchor = [b for b in facts.bodies if b.npath == "acyclic::order_map::OrderMap::add_node"]
        if anchor:
            o.r.bad(Violation("DIM-ORDERMAP", anchor[0].npath, "node_to_pos.resize", anchor[0].file, anchor[0].line,
                              "OrderMap never resizes node_to_pos to node_bound(): an index above its length cannot be stored"))
    o.r.floor = 1
    return o.r


def matching_accessor(facts):
    o = Obl("GUARD-MATE", "Matching::mate answers None for a node that does not exist: the mate vector is read with a bounds-checked get (or under an "
                          "explicit bounds test), never by plain indexing with an index derived from the argument")
    for b in o.need_fn(facts, "algo::matching::Matching::mate"):
        idx_calls = [(i, t) for i, t in b.calls() if norm_path(t["f"]["path"]) in ("core::ops::Index::index",) and t["args"] and ("field", "mate") in leaves(b.expr(t["args"][0], 8))]
        gets = [(i, t) for i, t in b.calls() if last_seg(t["f"]["path"]) == "get" and t["args"] and ("field", "mate") in leaves(b.expr(t["args"][0], 8))]
        bad = []
        for (i, t) in idx_calls:
            guarded = any(isinstance(e, tuple) and e[0] == "bin" and e[1] == "Lt" and truth is True for (e, truth, src) in dom_atoms(b, i))
            if not guarded:
                bad.append(t["line"])
        o.check(b, "read", b.line, not bad and (bool(gets) or bool(idx_calls)), "mate vector read through get() / under a bounds test",
                "Matching::mate indexes the mate vector directly (line %s): a node id >= node_bound (a removed tail node of a StableGraph, an id from "
                "another graph) panics instead of answering None" % bad)
    o.r.floor = 1
    return o.r


def ap_root_test(facts):
    o = Obl("GUARD-APROOT", "articulation_points: the test that recognises a DFS root does not use discovery times (the clock is shared by all DFS trees, "
                            "so only the first tree's root has disc == 0)")
    for b in o.need_fn(facts, "algo::articulation_points::_dfs"):
        n = 0
        for i, t in b.calls():
            if last_seg(t["f"]["path"]) != "insert" or not t["args"] or ("field", "articulation_points") not in leaves(b.expr(t["args"][0], 8)):
                continue
            n += 1
            bad = []
            for (e, truth, src) in dom_atoms(b, i):
                if isinstance(e, tuple) and e[0] == "bin" and e[1] in ("Eq", "Ne") and ("field", "disc") in leaves(e) and \
                        any(isinstance(s, tuple) and s[0] == "const" and s[1] == "0" for s in walk_expr(e)):
                    bad.append(b.blocks[src]["term"]["line"])
            o.check(b, "insert#%d" % n, t["line"], not bad, "no `disc[..] == 0` root test on the path to this insertion",
                    "an articulation point is recorded under a `disc[node] == 0` root test (line %s): the discovery clock is not reset between DFS "
                    "trees, so the root of a second component never passes it and its cut vertex is missed" % bad)
        o.check(b, "inserts", b.line, n >= 2, "%d insertion site(s)" % n, "expected 2 articulation-point insertions")
    o.r.floor = 3
    return o.r


def grow_then_index(facts):
    r = RuleResult("DIM-GROW", "`if v.len() <= ix { v.resize*(n) }; v[ix]`: the new length n derives from the index about to be used (ix + 1) or is an index "
                               "bound (node_bound), so the following access is in range")
    n = 0
    for b in facts.bodies:
        if b.kind not in ("Fn", "AssocFn", "Closure") or "quickcheck" in b.file:
            continue
        for i, t in b.calls():
            nm = last_seg(t["f"]["path"])
            if nm not in ("resize", "resize_with") or not norm_path(t["f"]["path"]).startswith("alloc::vec::Vec") or len(t["args"]) < 2:
                continue
            cont = {x for x in leaves(b.expr(t["args"][0], 8, named_leaf=True)) if x[0] in ("field", "local", "arg")}
            guard_ix = None
            for (e, truth, src) in dom_atoms(b, i, named_leaf=True):
                if isinstance(e, tuple) and e[0] == "bin" and truth is True and e[1] in ("Le", "Lt", "Ge", "Gt"):
                    lenside, ixside = (e[2], e[3]) if has_call(e[2], ("len",)) else ((e[3], e[2]) if has_call(e[3], ("len",)) else (None, None))
                    if lenside is None:
                        continue
                    if {x for x in leaves(lenside) if x[0] in ("field", "local", "arg")} & cont:
                        guard_ix = {x for x in leaves(ixside) if x[0] in ("local", "arg")}
            if guard_ix is None:
                continue
            n += 1
            size_e = b.expr(t["args"][1], 8, named_leaf=True)
            size_roots = {x for x in deep_leaves(b, size_e) if x[0] in ("local", "arg")}
            ok = bool(size_roots & guard_ix) or deep_has_call(b, size_e, ("node_bound", "edge_bound"))
            site = "%s#%d" % (nm, n)
            if ok:
                r.ok(b.npath, site, "new length derives from the guarded index / an index bound")
            else:
                r.bad(Violation("DIM-GROW", b.npath, site, b.file, t["line"],
                                "a vector is grown under `len <= ix` to a length that does not derive from ix (nor is an index bound): the access "
                                "v[ix] that follows can still be out of range"))
    r.floor = 2
    return r
