use petgraph::graph::{DiGraph, UnGraph};
use petgraph::visit::{EdgeRef, IntoEdges, IntoNeighbors, UndirectedAdaptor};

#[test]
fn self_loop_is_listed_once_like_in_an_undirected_graph() {
    let mut d = DiGraph::<(), u8>::new();
    let a = d.add_node(());
    let b = d.add_node(());
    d.add_edge(a, a, 1);
    d.add_edge(a, b, 2);
    // the same edges in a genuinely undirected graph
    let mut u = UnGraph::<(), u8>::new_undirected();
    let ua = u.add_node(());
    let ub = u.add_node(());
    u.add_edge(ua, ua, 1);
    u.add_edge(ua, ub, 2);
    let mut want: Vec<_> = u.neighbors(ua).map(|n| n.index()).collect();
    want.sort();
    let mut got: Vec<_> = UndirectedAdaptor(&d).neighbors(a).map(|n| n.index()).collect();
    got.sort();
    assert_eq!(got, want, "neighbors through UndirectedAdaptor vs the undirected graph");
    let mut we: Vec<_> = u.edges(ua).map(|e| *e.weight()).collect();
    we.sort();
    let mut ge: Vec<_> = UndirectedAdaptor(&d).edges(a).map(|e| *e.weight()).collect();
    ge.sort();
    assert_eq!(ge, we, "edges through UndirectedAdaptor vs the undirected graph");
}
