use petgraph::algo::{bellman_ford, spfa, toposort};
use petgraph::graph::DiGraph;

#[test]
fn spfa_on_a_dag_never_reports_a_negative_cycle() {
    // an acyclic graph (every edge goes from a lower to a higher index): there is no cycle at all
    let edges: [(u32, u32, f64); 13] = [
        (0, 5, -17.), (0, 3, 8.), (2, 5, 9.), (3, 5, -4.), (0, 2, -2.), (2, 4, -7.), (0, 1, -19.),
        (1, 3, -17.), (1, 4, 5.), (1, 2, -18.), (3, 4, 5.), (4, 5, -19.), (2, 3, -19.),
    ];
    let g = DiGraph::<(), f64>::from_edges(edges);
    assert!(toposort(&g, None).is_ok());
    let bf = bellman_ford(&g, 0.into()).expect("no negative cycle");
    let sp = spfa(&g, 0.into(), |e| *e.weight());
    assert!(sp.is_ok(), "spfa reports a negative cycle on an acyclic graph");
    assert_eq!(sp.unwrap().distances, bf.distances);
}
