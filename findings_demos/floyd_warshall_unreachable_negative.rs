use petgraph::algo::floyd_warshall;
use petgraph::algo::floyd_warshall::floyd_warshall_path;
use petgraph::algo::bellman_ford;
use petgraph::graph::DiGraph;

#[test]
fn unreachable_pair_stays_infinite_with_negative_edges() {
    // a (isolated)      k --(-5)--> j
    let mut g = DiGraph::<(), i32>::new();
    let a = g.add_node(());
    let k = g.add_node(());
    let j = g.add_node(());
    g.add_edge(k, j, -5);
    let d = floyd_warshall(&g, |e| *e.weight()).unwrap();
    assert_eq!(d[&(k, j)], -5);
    // j is not reachable from a: the distance must stay "infinite" (i32::MAX)
    assert_eq!(d[&(a, j)], i32::MAX, "unreachable pair (a, j) got a finite distance");
    assert_eq!(d[&(a, k)], i32::MAX);
    assert_eq!(d[&(j, k)], i32::MAX);
    let (d2, prev) = floyd_warshall_path(&g, |e| *e.weight()).unwrap();
    assert_eq!(d2[&(a, j)], i32::MAX);
    assert_eq!(prev[a.index()][j.index()], None, "unreachable pair got a predecessor");
}

#[test]
fn float_version_agrees_with_bellman_ford() {
    let mut g = DiGraph::<(), f64>::new();
    let a = g.add_node(());
    let k = g.add_node(());
    let j = g.add_node(());
    g.add_edge(k, j, -1.0e300);
    let d = floyd_warshall(&g, |e| *e.weight()).unwrap();
    let bf = bellman_ford(&g, a).unwrap();
    assert!(bf.distances[j.index()].is_infinite());
    assert_eq!(d[&(a, j)], f64::MAX, "unreachable pair (a, j) got a finite distance {}", d[&(a, j)]);
}
