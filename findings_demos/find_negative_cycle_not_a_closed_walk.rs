use petgraph::algo::{bellman_ford, find_negative_cycle};
use petgraph::graph::{DiGraph, NodeIndex, UnGraph};
use petgraph::visit::EdgeRef;

fn check_closed_negative_walk(g: &DiGraph<(), f64>, cyc: &[NodeIndex]) {
    assert!(!cyc.is_empty());
    let mut total = 0.0;
    for k in 0..cyc.len() {
        let (a, b) = (cyc[k], cyc[(k + 1) % cyc.len()]);
        let w = g.edges(a).filter(|e| e.target() == b).map(|e| *e.weight()).fold(f64::INFINITY, f64::min);
        assert!(w.is_finite(), "returned sequence {:?} uses {:?} -> {:?}, which is not an edge", cyc, a, b);
        total += w;
    }
    assert!(total < 0.0, "returned closed walk {:?} has weight {}", cyc, total);
}

#[test]
fn cycle_not_through_the_first_relaxable_target() {
    let g = DiGraph::<(), f64>::from_edges([(0, 1, 0.0), (0, 3, -2.0), (1, 2, 0.0), (2, 1, -1.0), (1, 3, 0.0)]);
    assert!(bellman_ford(&g, 0.into()).is_err());
    let cyc = find_negative_cycle(&g, 0.into()).expect("bellman_ford errs, so a cycle must be reported");
    check_closed_negative_walk(&g, &cyc);
}

#[test]
fn undirected_negative_edge() {
    let g = UnGraph::<(), f64>::from_edges([(0, 1, -1.0)]);
    assert!(bellman_ford(&g, 1.into()).is_err());
    let cyc = find_negative_cycle(&g, 1.into()).unwrap();
    // node 1 has no self-loop: the closed walk is 1 - 0 - 1
    assert_eq!(cyc.len(), 2, "{:?}", cyc);
}

#[test]
fn random_small_digraphs() {
    // xorshift
    let mut s: u64 = 0x9E3779B97F4A7C15;
    let mut rnd = move || { s ^= s << 13; s ^= s >> 7; s ^= s << 17; s };
    for _ in 0..3000 {
        let n = 2 + (rnd() % 5) as u32;
        let m = 1 + (rnd() % 10) as usize;
        let mut edges = Vec::new();
        for _ in 0..m {
            edges.push((rnd() as u32 % n, rnd() as u32 % n, ((rnd() % 9) as f64) - 3.0));
        }
        let mut g = DiGraph::<(), f64>::new();
        for _ in 0..n { g.add_node(()); }
        for &(a, b, w) in &edges { g.add_edge(a.into(), b.into(), w); }
        let bf = bellman_ford(&g, 0.into());
        let cyc = find_negative_cycle(&g, 0.into());
        assert_eq!(bf.is_err(), cyc.is_some(), "{:?}", edges);
        if let Some(c) = cyc { check_closed_negative_walk(&g, &c); }
    }
}
