use petgraph::algo::{bellman_ford, find_negative_cycle, floyd_warshall};
use petgraph::algo::floyd_warshall::floyd_warshall_path;
use petgraph::graph::DiGraph;
use petgraph::prelude::*;

#[test]
fn negative_self_loop_is_a_negative_cycle() {
    let mut g = DiGraph::<(), f64>::new();
    let a = g.add_node(());
    let b = g.add_node(());
    g.add_edge(a, b, 1.0);
    g.add_edge(b, b, -1.0);
    // the reference algorithms agree that there is a negative cycle
    assert!(bellman_ford(&g, a).is_err());
    assert_eq!(find_negative_cycle(&g, a), Some(vec![b]));
    assert!(floyd_warshall(&g, |e| *e.weight()).is_err(), "floyd_warshall misses the negative self-loop");
    assert!(floyd_warshall_path(&g, |e| *e.weight()).is_err());
}

#[test]
fn positive_self_loop_keeps_zero_self_distance() {
    let mut g = DiGraph::<(), i32>::new();
    let a = g.add_node(());
    let b = g.add_node(());
    g.add_edge(a, b, 2);
    g.add_edge(a, a, 5);
    let d = floyd_warshall(&g, |e| *e.weight()).unwrap();
    assert_eq!(d[&(a, a)], 0);
    assert_eq!(d[&(a, b)], 2);
    assert_eq!(d[&(b, b)], 0);
}
