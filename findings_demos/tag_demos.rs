// Demonstrations of the TAG defects (DESIGN §6 #3, #16) and the serde limit defect (#17).
// Copy to /repo/serialization-tests/tests/ to run (needs serde_json).
use petgraph::stable_graph::StableGraph;
use petgraph::visit::IntoNodeIdentifiers;
use petgraph::{Directed, Graph};

#[test]
fn demo3_stable_reverse_with_vacancies() {
    let mut g: StableGraph<u32, u32> = StableGraph::new();
    let n: Vec<_> = (0..6).map(|i| g.add_node(i)).collect();
    let e0 = g.add_edge(n[0], n[1], 0);
    let e1 = g.add_edge(n[1], n[2], 1);
    let _e2 = g.add_edge(n[2], n[0], 2);
    g.remove_node(n[3]);
    g.remove_node(n[4]);
    g.remove_node(n[5]);
    g.remove_edge(e0);
    g.remove_edge(e1);
    g.reverse();
    // the three vacancies must be reused before the graph grows
    let a = g.add_node(10);
    let b = g.add_node(11);
    let c = g.add_node(12);
    assert!(a.index() < 6 && b.index() < 6 && c.index() < 6, "vacancies leaked: {:?} {:?} {:?}", a, b, c);
    let x = g.add_edge(a, b, 7);
    let y = g.add_edge(b, c, 8);
    assert!(x.index() < 3 && y.index() < 3, "edge vacancies leaked");
    g.retain_nodes(|_, _| true); // runs the debug self-check
    assert_eq!(g.node_count(), 6);
    assert_eq!(g.node_identifiers().count(), 6);
}

#[test]
fn demo16_edge_to_declared_hole() {
    let s = r#"{"nodes":[0,2],"node_holes":[1],"edge_property":"directed","edges":[[0,1,7]]}"#;
    let r: Result<StableGraph<u32, u32, Directed>, _> = serde_json::from_str(s);
    match r {
        Err(_) => {}
        Ok(g) => {
            let a = petgraph::stable_graph::NodeIndex::new(0);
            let nb: Vec<_> = g.neighbors(a).collect();
            panic!("edge to a vacant node was accepted; neighbors(0) = {:?}, contains_node(1) = {}", nb,
                   g.contains_node(petgraph::stable_graph::NodeIndex::new(1)));
        }
    }
}

#[test]
fn demo17_u8_graph_at_capacity_roundtrips() {
    let mut g: Graph<(), (), Directed, u8> = Graph::default();
    for _ in 0..255 {
        g.try_add_node(()).unwrap();
    }
    let s = serde_json::to_string(&g).unwrap();
    let h: Graph<(), (), Directed, u8> = serde_json::from_str(&s).expect("a graph that can be built must load");
    assert_eq!(h.node_count(), 255);
    let mut sg: StableGraph<(), (), Directed, u8> = StableGraph::default();
    for _ in 0..255 {
        sg.try_add_node(()).unwrap();
    }
    let s = serde_json::to_string(&sg).unwrap();
    let h: StableGraph<(), (), Directed, u8> = serde_json::from_str(&s).expect("a stable graph that can be built must load");
    assert_eq!(h.node_count(), 255);
}
