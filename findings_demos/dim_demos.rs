// Demonstrations of the DIM defects (DESIGN §6 #4,#5,#6,#7,#13). Copy to /repo/tests/ to run.
use petgraph::algo::articulation_points::articulation_points;
use petgraph::algo::{ford_fulkerson, k_shortest_path};
use petgraph::visit::NodeCount;
use petgraph::graphmap::DiGraphMap;
use petgraph::stable_graph::StableGraph;
use petgraph::visit::GetAdjacencyMatrix;
use petgraph::{Directed, Undirected};

fn holed() -> (StableGraph<(), u32, Directed>, Vec<petgraph::stable_graph::NodeIndex>) {
    let mut g = StableGraph::new();
    let n: Vec<_> = (0..4).map(|_| g.add_node(())).collect();
    g.add_edge(n[1], n[2], 1);
    g.add_edge(n[2], n[3], 1);
    g.remove_node(n[0]);
    (g, n)
}

#[test]
fn demo4_stable_is_adjacent() {
    let (g, n) = holed();
    let m = g.adjacency_matrix();
    assert!(g.is_adjacent(&m, n[2], n[3]));
    assert!(!g.is_adjacent(&m, n[3], n[2]));
}

#[test]
fn demo5_k_shortest_path() {
    let (g, n) = holed();
    let r = k_shortest_path(&g, n[1], None, 1, |e| *e.weight());
    assert_eq!(r[&n[3]], 2);
}

#[test]
fn demo6_ford_fulkerson() {
    let (mut g, n) = holed();
    // also an edge hole
    let e = g.add_edge(n[1], n[3], 5);
    let e2 = g.add_edge(n[1], n[3], 7);
    g.remove_edge(e);
    let (flow, flows) = ford_fulkerson(&g, n[1], n[3]);
    assert_eq!(flow, 8);
    assert_eq!(flows[e2.index()], 7);
}

#[test]
fn demo7_articulation_points() {
    let mut g: StableGraph<(), (), Undirected> = StableGraph::default();
    let a = g.add_node(());
    let b = g.add_node(());
    let c = g.add_node(());
    g.add_edge(a, b, ());
    g.add_edge(b, c, ());
    let r = articulation_points(&g);
    assert_eq!(r.len(), 1);
    assert!(r.contains(&b));
}

#[test]
fn demo13_tred() {
    let mut g: DiGraphMap<u32, ()> = DiGraphMap::new();
    g.add_edge(10, 20, ());
    let topo = petgraph::algo::toposort(&g, None).unwrap();
    let (list, revmap) = petgraph::algo::tred::dag_to_toposorted_adjacency_list::<_, u32>(&g, &topo);
    assert_eq!(revmap.len(), 2);
    assert_eq!(list.node_count(), 2);
}
