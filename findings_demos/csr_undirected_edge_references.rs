use petgraph::csr::Csr;
use petgraph::visit::{EdgeCount, EdgeRef, IntoEdgeReferences, IntoEdges, GetAdjacencyMatrix};
use petgraph::Undirected;

#[test]
fn undirected_csr_edge_references_yield_each_edge_once() {
    let mut g: Csr<(), u32, Undirected> = Csr::with_nodes(4);
    assert!(g.add_edge(0, 1, 10));
    assert!(g.add_edge(1, 2, 20));
    assert!(g.add_edge(2, 2, 30));
    assert!(g.add_edge(3, 0, 40));
    assert_eq!(g.edge_count(), 4);
    let refs: Vec<_> = (&g).edge_references().map(|e| (e.source(), e.target(), *e.weight())).collect();
    assert_eq!(refs.len(), EdgeCount::edge_count(&g), "edge_references yields {:?}", refs);
    let mut norm: Vec<_> = refs.iter().map(|&(a, b, w)| (a.min(b), a.max(b), w)).collect();
    norm.sort();
    assert_eq!(norm, vec![(0, 1, 10), (0, 3, 40), (1, 2, 20), (2, 2, 30)]);
    // the per-node view still shows an undirected edge from both endpoints
    assert_eq!((&g).edges(1).count(), 2);
    assert_eq!((&g).edges(0).count(), 2);
    assert_eq!((&g).edges(2).count(), 2);
    let m = (&g).adjacency_matrix();
    assert!((&g).is_adjacent(&m, 1, 0) && (&g).is_adjacent(&m, 0, 1) && (&g).is_adjacent(&m, 0, 3) && (&g).is_adjacent(&m, 3, 0));
}
