use petgraph::matrix_graph::DiMatrix;
use petgraph::visit::{EdgeRef, IntoEdgesDirected, IntoEdgeReferences, Reversed, IntoEdges};
use petgraph::Direction::{Incoming, Outgoing};

#[test]
fn incoming_edge_refs_have_real_orientation() {
    let mut g = DiMatrix::<(), u32>::new();
    let a = g.add_node(());
    let b = g.add_node(());
    let c = g.add_node(());
    g.add_edge(a, b, 7);
    g.add_edge(c, b, 9);
    // every edge reference yielded by edges_directed(b, Incoming) must be an edge of the graph ending at b
    let all: Vec<_> = (&g).edge_references().map(|e| (e.source(), e.target(), *e.weight())).collect();
    let mut inc: Vec<_> = (&g).edges_directed(b, Incoming).map(|e| (e.source(), e.target(), *e.weight())).collect();
    inc.sort();
    for e in &inc {
        assert!(all.contains(e), "edges_directed(b, Incoming) yields {:?} which is not an edge of the graph {:?}", e, all);
        assert_eq!(e.1, b);
    }
    assert_eq!(inc, vec![(a, b, 7), (c, b, 9)]);
    // inherent method too
    let inc2: Vec<_> = g.edges_directed(b, Incoming).map(|(s, t, w)| (s, t, *w)).collect();
    assert_eq!(inc2.len(), 2);
    assert!(inc2.iter().all(|e| e.1 == b));
    // neighbors_directed unchanged: the sources
    let mut nb: Vec<_> = g.neighbors_directed(b, Incoming).collect();
    nb.sort();
    assert_eq!(nb, vec![a, c]);
    assert_eq!(g.neighbors_directed(a, Outgoing).collect::<Vec<_>>(), vec![b]);
    // Reversed presents exactly the reversed graph
    let rev: Vec<_> = Reversed(&g).edges(b).map(|e| (e.source(), e.target(), *e.weight())).collect();
    assert!(rev.iter().all(|e| e.0 == b), "Reversed(&g).edges(b) = {:?}", rev);
}
