// Demonstration of the DELEG defect (DESIGN §6 #12). Copy to /repo/tests/ to run.
use petgraph::graph::DiGraph;
use petgraph::visit::{GetAdjacencyMatrix, Reversed};

#[test]
fn demo12_reversed_is_adjacent() {
    let mut g: DiGraph<(), ()> = DiGraph::new();
    let a = g.add_node(());
    let b = g.add_node(());
    g.add_edge(a, b, ());
    let r = Reversed(&g);
    let m = r.adjacency_matrix();
    assert!(r.is_adjacent(&m, b, a), "reversed graph has the edge b -> a");
    assert!(!r.is_adjacent(&m, a, b), "reversed graph has no edge a -> b");
}
