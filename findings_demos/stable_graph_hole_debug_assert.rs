use petgraph::stable_graph::StableGraph;

// node_holes names position 2 although only one compact node precedes it: malformed input must be an error, not a panic
#[test]
fn misplaced_hole_after_short_prefix_is_an_error() {
    let json = r#"{"nodes":[1],"node_holes":[2,5],"edge_property":"directed","edges":[]}"#;
    let r = std::panic::catch_unwind(|| serde_json::from_str::<StableGraph<i32, i32>>(json).map(|g| g.node_count()));
    match r {
        Ok(Err(_)) => {}
        Ok(Ok(n)) => panic!("malformed input accepted: {} nodes", n),
        Err(_) => panic!("deserialising malformed input panicked"),
    }
}
