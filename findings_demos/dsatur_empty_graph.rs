use petgraph::algo::dsatur_coloring;
use petgraph::graph::UnGraph;
use petgraph::stable_graph::StableUnGraph;

#[test]
fn empty_graph_uses_no_colour() {
    let g = UnGraph::<(), ()>::new_undirected();
    let (colouring, k) = dsatur_coloring(&g);
    assert!(colouring.is_empty());
    // "uses colours 0..k-1 with k the reported count": no colour is used
    assert_eq!(k, 0);
}

#[test]
fn stable_graph_with_all_nodes_removed() {
    let mut g = StableUnGraph::<(), ()>::default();
    let a = g.add_node(());
    let b = g.add_node(());
    g.add_edge(a, b, ());
    g.remove_node(a);
    g.remove_node(b);
    let (colouring, k) = dsatur_coloring(&g);
    assert!(colouring.is_empty());
    assert_eq!(k, 0);
}

#[test]
fn reported_count_is_the_number_of_colours_used() {
    let g = UnGraph::<(), ()>::from_edges([(0, 1), (1, 2), (2, 0), (2, 3)]);
    let (colouring, k) = dsatur_coloring(&g);
    let mut used: Vec<usize> = colouring.values().copied().collect();
    used.sort();
    used.dedup();
    assert_eq!(used, (0..k).collect::<Vec<_>>());
}
