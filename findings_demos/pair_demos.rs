// Demonstration of the PAIR defect (DESIGN §6 #10). Copy to /repo/tests/ to run.
use petgraph::matrix_graph::{DiMatrix, UnMatrix};

#[test]
fn demo10_matrix_remove_node_edge_count() {
    let mut g: UnMatrix<(), u32> = UnMatrix::default();
    let a = g.add_node(());
    let b = g.add_node(());
    let c = g.add_node(());
    g.add_edge(a, b, 1);
    g.add_edge(b, c, 1);
    g.add_edge(a, a, 1);
    g.remove_node(a);
    assert_eq!(g.edge_count(), 1);
    let mut d: DiMatrix<(), u32> = DiMatrix::default();
    let a = d.add_node(());
    let b = d.add_node(());
    d.add_edge(a, b, 1);
    d.add_edge(b, a, 1);
    d.add_edge(a, a, 1);
    d.add_edge(b, b, 1);
    d.remove_node(a);
    assert_eq!(d.edge_count(), 1);
}
