// Demonstration of the CANON defect (DESIGN §6 #9). Copy to /repo/tests/ to run.
use petgraph::graphmap::UnGraphMap;
use petgraph::visit::{EdgeIndexable, EdgeRef, IntoEdges};

#[test]
fn demo9_graphmap_edge_to_index_undirected() {
    let mut g: UnGraphMap<u32, ()> = UnGraphMap::new();
    g.add_edge(1, 2, ());
    // the edge id as reported from endpoint 2 is (2, 1)
    let id = g.edges(2).next().unwrap().id();
    assert_eq!(id, (2, 1));
    let i = EdgeIndexable::to_index(&g, id);
    assert_eq!(i, 0);
}
