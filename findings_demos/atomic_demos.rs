// Demonstrations of the ATOMIC/EFFECT defects (DESIGN §6 #1,#2,#14,#15). Copy to /repo/tests/ to run.
use petgraph::acyclic::Acyclic;
use petgraph::data::Build;
use petgraph::graph::DiGraph;
use petgraph::stable_graph::{StableDiGraph, StableGraph};
use petgraph::Directed;

#[test]
fn demo1_stable_try_add_node_limit() {
    let mut g: StableGraph<(), (), Directed, u8> = StableGraph::default();
    for _ in 0..255 {
        g.try_add_node(()).unwrap();
    }
    assert_eq!(g.node_count(), 255);
    assert!(g.try_add_node(()).is_err());
    assert_eq!(g.node_count(), 255);
    assert_eq!(g.node_indices().count(), 255);
}

#[test]
fn demo2_stable_try_add_edge_missing_endpoint() {
    let mut g: StableGraph<(), u32> = StableGraph::new();
    let a = g.add_node(());
    let b = g.add_node(());
    let e = g.add_edge(a, b, 1);
    g.remove_edge(e);
    let bad = petgraph::stable_graph::NodeIndex::new(9);
    assert!(g.try_add_edge(a, bad, 7).is_err());
    assert_eq!(g.edge_count(), 0);
    assert_eq!(g.edge_weight(e), None);
    assert_eq!(g.edge_indices().count(), 0);
    // and the vacancy is still usable
    let e2 = g.add_edge(a, b, 2);
    assert_eq!(e2, e);
    assert_eq!(g.edge_count(), 1);
}

#[test]
fn demo15_acyclic_remove_absent_node() {
    let mut g: Acyclic<StableDiGraph<(), ()>> = Acyclic::new();
    let a = g.add_node(());
    let b = g.add_node(());
    let c = g.add_node(());
    g.try_add_edge(a, b, ()).unwrap();
    g.try_add_edge(b, c, ()).unwrap();
    assert!(g.remove_node(b).is_some());
    assert!(g.remove_node(b).is_none());
    let order: Vec<_> = g.nodes_iter().collect();
    assert_eq!(order.len(), 2, "order lost a live node: {:?}", order);
    assert!(order.contains(&a) && order.contains(&c));
}

#[test]
fn demo14_acyclic_digraph_remove_renumbers() {
    let mut g: Acyclic<DiGraph<u32, ()>> = Acyclic::new();
    let a = g.add_node(0);
    let b = g.add_node(1);
    let c = g.add_node(2);
    g.try_add_edge(c, b, ()).unwrap(); // c before b
    assert_eq!(g.remove_node(a), Some(0)); // c (index 2) is renumbered to index 0
    let order: Vec<_> = g.nodes_iter().collect();
    assert_eq!(order.len(), 2);
    for n in &order {
        assert!(g.inner().node_weight(*n).is_some(), "order names a dead index {:?}", n);
    }
    // the moved node (weight 2, now index 0) must still precede b
    let moved = petgraph::graph::NodeIndex::new(0);
    assert_eq!(g.inner()[moved], 2);
    assert!(g.get_position(moved) < g.get_position(b));
    // and adding the reverse edge must be rejected
    assert!(g.try_add_edge(b, moved, ()).is_err());
}
