// Demonstration of the GUARD-SIBLING defect (DESIGN §6 #11). Copy to /repo/tests/ to run.
use petgraph::adj::List;
use petgraph::data::Build;
use petgraph::visit::{IntoEdgeReferences, EdgeRef};

#[test]
#[should_panic(expected = "is not a valid node index")]
fn demo11_list_update_edge_target_out_of_range() {
    let mut l: List<()> = List::new();
    let a = l.add_node();
    // add_edge panics for an absent target; update_edge must not silently accept it
    let _ = Build::update_edge(&mut l, a, 7, ());
    let dangling: Vec<_> = l.edge_references().map(|e| e.target()).collect();
    eprintln!("accepted edge to non-existent node(s): {:?}", dangling);
}
